import DispensoVerif.Proofs.TimedTaskAll

/-!
# C26 — TimedTask run count, cancellation and teardown

Model: `DispensoVerif/Model/TimedTask.lean` — one `TimedTaskImpl`, the thread executing
`kickOffTask` for it (creator or scheduler thread), any number of `wrap` closures running on the
backing schedulable (each its own logical thread; inline schedulables block the kicker), any number
of client threads in `cancel()/detach()/calls()`, one run of `~TimedTask`, a monotone clock.  One
model action per atomic operation of the C++ code; `Cfg.fixed` selects the code as found (`false`)
or the repaired kick-off (`true`).  An invocation *starts* at the cancelled-flag check in `wrap`
that immediately precedes the call of the user function on the same thread (DESIGN.md §5.3).

All theorems quantify over every reachable state, i.e. every interleaving of all participants, every
configuration (`timesToRun`, first time, period, steady/normal, inline/queued schedulable, buffer)
and both code variants unless stated otherwise.
-/
namespace Dispenso.TimedTask

/-- **C26.a** The user function is invoked at most `timesToRun` times. -/
theorem C26_run_count (c : Cfg) (s : St) (h : Reachable c s) : s.started ≤ c.n0 := by
  have hE := (inv_reachable h).e
  have := cnt_le_length isPending s.wraps
  have h1 := hE.st; have h2 := hE.wk; have h3 := hE.kn
  omega

/-- **C26.b** No invocation starts after a `cancel()` has returned. -/
theorem C26_no_start_after_cancel_returned (c : Cfg) (s s' : St) (a : Act) (h : Reachable c s)
    (hc : s.cancelRet = true) (hs : step c s a = some s') : s'.started = s.started := by
  have hC := (inv_reachable h).cc.cr hc
  rcases start_step hs with h1 | ⟨_, h2, _⟩
  · exact h1
  · rw [hC] at h2; cases h2

/-- **C26.c (partial)** No invocation starts after an invocation that returned `false` has
published it (its `flags.fetch_or(cancelled)`).  The statement "no invocation starts after the
function returned false" does not hold between the return and that publication when invocations
overlap: `C26_start_after_false_return_counterexample`. -/
theorem C26_no_start_after_false_published_partial (c : Cfg) (s s' : St) (a : Act)
    (h : Reachable c s) (hp : s.falsePub = true) (hs : step c s a = some s') :
    s'.started = s.started := by
  have hC := (inv_reachable h).cc.fp hp
  rcases start_step hs with h1 | ⟨_, h2, _⟩
  · exact h1
  · rw [hC] at h2; cases h2

/-- **C26.c for sequential schedulables** With an inline schedulable (`ImmediateInvoker`) no
invocation starts after the function returned `false` — full strength. -/
theorem C26_no_start_after_false_inline (c : Cfg) (s s' : St) (a : Act) (hi : c.inl = true)
    (h : Reachable c s) (hf : s.falseRet = true) (hs : step c s a = some s') :
    s'.started = s.started := by
  have hH := (inv_reachable h).h
  rcases start_step hs with h1 | ⟨_, h2, i, _, hw⟩
  · exact h1
  · exfalso
    have hone := hH.one hi
    have hp : 1 ≤ cnt isPending s.wraps := cnt_pos isPending hw (by simp [isPending])
    have hd := countP_disjoint_le (p := isPending) (q := midFalse) (r := notDone)
      (by intro w; cases w <;> simp [isPending, notDone])
      (by intro w; cases w <;> simp [midFalse, notDone])
      (by intro w; cases w <;> simp [isPending, midFalse]) s.wraps
    rcases hH.mid hf with hcan | hm
    · rw [hcan] at h2; cases h2
    · omega

/-- **C26.d** No invocation starts earlier than `kSmallTimeBuffer` before the first scheduled time.
(The strict "never before its first scheduled time" fails by design inside that buffer:
`C26_start_before_first_time_counterexample`.) -/
theorem C26_not_before_first_time_minus_buffer (c : Cfg) (s s' : St) (a : Act) (h : Reachable c s)
    (hs : step c s a = some s') (hst : s'.started = s.started + 1) : c.first < s.now + c.buf := by
  have hI := inv_reachable h
  rcases start_step hs with h1 | ⟨_, _, i, _, hw⟩
  · omega
  · have hp : 1 ≤ cnt isPending s.wraps := cnt_pos isPending hw (by simp [isPending])
    have := cnt_le_length isPending s.wraps
    have h2 := hI.e.wk
    exact hI.f.t1 (by omega)

/-- **C26.e** When a non-detached `~TimedTask` has returned, no invocation is in progress (no wrap
is between its start check and its `inProgress` decrement) and none can start: this stays so along
every continuation. -/
theorem C26_dtor_return (c : Cfg) (s : St) (h : Reachable c s) (hd : s.d = .returned true)
    (as : List Act) (s' : St) (hr : run c s as = some s') :
    s'.started = s.started ∧ ∀ w ∈ s'.wraps, w.busy = false := by
  have hret : s.dtorRet = true := (dtorRet_iff h).mpr hd
  induction as generalizing s with
  | nil =>
    simp only [run, Option.some.injEq] at hr; subst hr
    exact ⟨rfl, (cnt_eq_zero_iff _ _).mp ((inv_reachable h).d.ret hret)⟩
  | cons a as ih =>
    simp only [run] at hr
    split at hr
    · rename_i s1 hs1
      have hr1 : Reachable c s1 := .step a h hs1
      have hret1 := dtorRet_step hs1 hret
      have := ih s1 hr1 ((dtorRet_iff hr1).mp hret1) hr hret1
      have hcan := (inv_reachable h).cc.dr hret
      rcases start_step hs1 with h1 | ⟨_, h2, _⟩
      · exact ⟨by omega, this.2⟩
      · rw [hcan] at h2; cases h2
    · cases hr

/-- **C26.e'** The destructor leaves its spin loop only on observing `inProgress = 0`, and at that
moment no kick-off holds a unit and every wrap is done. -/
theorem C26_dtor_waits (c : Cfg) (s s' : St) (h : Reachable c s) (hd : s.d = .spin)
    (hs : step c s .dstep = some s') (hc : s'.d = .clear) :
    s.inProgress = 0 ∧ ∀ w ∈ s.wraps, w = W.done := by
  have hB := (inv_reachable h).b
  unfold InvB at hB
  simp only [step, dstepF, hd] at hs
  simp only [Option.some.injEq] at hs; subst hs
  simp only at hc
  split at hc
  · rename_i h0
    refine ⟨h0, ?_⟩
    have : cnt notDone s.wraps = 0 := by omega
    intro w hw
    have := (cnt_eq_zero_iff _ _).mp this w hw
    simpa [notDone] using this
  · cases hc

/-- **C26.f (repaired kick-off)** `func` is never called or executed after it was destroyed, and
never destroyed while an invocation of the user function is executing. -/
theorem C26_fixed_func_safe (c : Cfg) (hf : c.fixed = true) (s : St) (h : Reachable c s) :
    s.uaf = false := (invG_reachable hf h).nouaf

/-! ### witnesses: what does not hold -/

theorem exists_of_run_map {β : Type} {c : Cfg} {as : List Act} {f : St → β} {b : β}
    (h : (run c (init c) as).map f = some b) : ∃ s, Reachable c s ∧ f s = b := by
  cases hr : run c (init c) as with
  | none => simp [hr] at h
  | some s => exact ⟨s, reachable_of_run as hr, by simpa [hr] using h⟩

def wcfg (fixed inl : Bool) : Cfg :=
  { n0 := 3, first := 100000, period := 1000, steady := true, inl := inl, buf := 10738, fixed := fixed }

/-- one complete kick-off up to and including the submission of the wrap: five kicker operations in
    both variants (found: fetch_sub, call, check, inProgress++, submit; repaired: fetch_sub,
    inProgress++, re-check, call, submit) -/
def kick (_fixed : Bool) : List Act := [.kstep, .kstep, .kstep, .kstep, .kstep]

/-- **C26.c counterexample** (both code variants, queued schedulable): invocation 0 returns `false`;
before it has set the cancelled flag, invocation 1 — kicked off while 0 was running — starts. -/
theorem C26_start_after_false_return_counterexample (fixed : Bool) :
    ∃ s s', Reachable (wcfg fixed false) s ∧ s.falseRet = true ∧
      step (wcfg fixed false) s (.wstep 1) = some s' ∧ s'.started = s.started + 1 := by
  have h := exists_of_run_map (c := wcfg fixed false)
    (as := [.tick 100000, .add 100000] ++ kick fixed ++ [.kstep, .wstep 0, .tick 1000, .pop 101000] ++
      kick fixed ++ [.wret 0 false])
    (f := fun s => (s.falseRet, (step (wcfg fixed false) s (.wstep 1)).map (·.started), s.started))
    (b := (true, some 2, 1)) (by cases fixed <;> decide)
  obtain ⟨s, hr, hs⟩ := h
  simp only [Prod.mk.injEq] at hs
  obtain ⟨h1, h2, h3⟩ := hs
  cases hst : step (wcfg fixed false) s (.wstep 1) with
  | none => simp [hst] at h2
  | some s' =>
    refine ⟨s, s', hr, h1, hst, ?_⟩
    simp [hst] at h2; omega

/-- **C26.d counterexample** (both variants): the first invocation starts at time
`first - kSmallTimeBuffer + 1 < first`. -/
theorem C26_start_before_first_time_counterexample (fixed : Bool) :
    ∃ s s', Reachable (wcfg fixed true) s ∧ step (wcfg fixed true) s (.wstep 0) = some s' ∧
      s'.started = s.started + 1 ∧ s.now < (wcfg fixed true).first := by
  have h := exists_of_run_map (c := wcfg fixed true)
    (as := [.tick 89263, .add 89263] ++ kick fixed)
    (f := fun s => ((step (wcfg fixed true) s (.wstep 0)).map (·.started), s.started, s.now))
    (b := (some 1, 0, 89263)) (by cases fixed <;> decide)
  obtain ⟨s, hr, hs⟩ := h
  simp only [Prod.mk.injEq] at hs
  obtain ⟨h1, h2, h3⟩ := hs
  cases hst : step (wcfg fixed true) s (.wstep 0) with
  | none => simp [hst] at h1
  | some s' =>
    refine ⟨s, s', hr, hst, ?_, ?_⟩
    · simp [hst] at h1; omega
    · simp [wcfg, h3]

/-- **C26.f witness 1 (code as found)**: the kicker has decremented `timesToRun` and is about to call
`func`; `~TimedTask` cancels, reads `inProgress = 0`, destroys `func` and returns; the kicker then
calls the destroyed `std::function`. -/
theorem C26_old_dtor_destroys_func_before_call :
    ∃ s, Reachable (wcfg false false) s ∧ s.d = .returned true ∧ s.uaf = true :=
  exists_of_run_map (c := wcfg false false)
    (as := [.tick 100000, .add 100000, .kstep, .dstep, .dstep, .dstep, .dstep, .dstep, .dstep, .kstep])
    (f := fun s => (decide (s.d = .returned true) && s.uaf)) (b := true) (by decide)
    |>.imp fun s ⟨hr, h⟩ => by simp at h; exact ⟨hr, h.1, h.2⟩

/-- **C26.f witness 2 (code as found)**: the kicker is inside `func`'s closure between the
cancelled-check and `inProgress++` when the destructor runs to completion; the closure is used
after its destruction. -/
theorem C26_old_dtor_destroys_func_during_closure :
    ∃ s, Reachable (wcfg false false) s ∧ s.d = .returned true ∧ s.uaf = true :=
  exists_of_run_map (c := wcfg false false)
    (as := [.tick 100000, .add 100000, .kstep, .kstep, .kstep,
      .dstep, .dstep, .dstep, .dstep, .dstep, .dstep, .kstep])
    (f := fun s => (decide (s.d = .returned true) && s.uaf)) (b := true) (by decide)
    |>.imp fun s ⟨hr, h⟩ => by simp at h; exact ⟨hr, h.1, h.2⟩

/-- **C26.f witness 3 (code as found)**: invocation 0 returns `false` and destroys `func` while
invocation 1 of the same function object is executing. -/
theorem C26_old_false_return_destroys_func_in_use :
    ∃ s, Reachable (wcfg false false) s ∧ s.wraps[1]? = some W.running ∧ s.uaf = true :=
  exists_of_run_map (c := wcfg false false)
    (as := [.tick 100000, .add 100000] ++ kick false ++ [.kstep, .wstep 0, .tick 1000, .pop 101000] ++
      kick false ++ [.wret 0 false, .wstep 1, .wstep 0, .wstep 0, .wstep 0])
    (f := fun s => (decide (s.wraps[1]? = some W.running) && s.uaf)) (b := true) (by decide)
    |>.imp fun s ⟨hr, h⟩ => by simp at h; exact ⟨hr, h.1, h.2⟩

/-! ### non-vacuity -/

/-- a periodic task runs twice on a queued schedulable, the destructor first finds an invocation in
progress, waits, and returns; two invocations were made and both counted -/
example : ∃ s, Reachable (wcfg true false) s ∧
    (s.started, s.count, s.d, s.inProgress, s.uaf) = (2, 2, D.returned true, 0, false) :=
  exists_of_run_map (c := wcfg true false)
    (as := [.tick 100000, .add 100000] ++ kick true ++ [.kstep, .wstep 0, .wret 0 true, .wstep 0, .wstep 0,
      .tick 1000, .pop 101000] ++ kick true ++ [.kstep, .wstep 1, .dstep, .dstep, .dstep, .dstep, .dstep,
      .wret 1 true, .wstep 1, .dstep, .wstep 1, .dstep, .dstep])
    (f := fun s => (s.started, s.count, s.d, s.inProgress, s.uaf)) (by decide)

/-- a cancel() returns while the entry waits in the queue; the later kick-off finds timesToRun = 0 -/
example : ∃ s, Reachable (wcfg false true) s ∧ (s.cancelRet, s.started, s.ttr, s.k) = (true, 0, maxSize, K.idle) :=
  exists_of_run_map (c := wcfg false true)
    (as := [.add 0, .call 7 .cancel1, .cstep 7, .cstep 7, .tick 100000, .pop 100000, .kstep])
    (f := fun s => (s.cancelRet, s.started, s.ttr, s.k)) (by decide)

end Dispenso.TimedTask
