import DispensoVerif.Proofs.GraphExec
import DispensoVerif.Proofs.GraphSets
import DispensoVerif.Proofs.GraphClear
/-
C30 — `dispenso::Graph` construction and the wave executors (SingleThreadExecutor /
ParallelForExecutor), over the model `DispensoVerif/Model/Graph.lean`.
Abstractions (Proofs/Graph.lean): `edges g` (all `(p, d)`, `p` live, `d` a dependent of `p`, with
multiplicity), `Consistent g` (every live incomplete node counts its live incomplete predecessors,
the count is `< kCompleted`, plus the structural facts `WF g`), `Closed g` (dependents of incomplete
nodes are incomplete), `Acyclic g` (a rank function increases along edges), `PredOK g`
(`numPred` = in-degree), `EdgeBound g` (fewer than 2^64-1 edges, so no counter wraps).
* `C30_execute`: the executor runs exactly the incomplete nodes, each once, every node after its
  incomplete predecessors, and leaves every node completed.
* `C30_construction_consistent`, `C30_setAll_consistent`: freshly built graphs and graphs after
  `setAllNodesIncomplete` satisfy the hypotheses of `C30_execute`.
* `C30_clear`: `clearSubgraph g s` removes exactly the nodes of `s` and every edge touching them;
  `WF`, `PredOK`, `EdgeBound` are preserved.
-/
namespace Dispenso.Graph
open List

/-- The wave executor. The closure hypothesis is only needed for plain graphs (`BiPropGraph`'s
    `decNumIncompletePredecessors` skips completed dependents). -/
theorem C30_execute (g : G) (hc : Consistent g) (hcl : g.biProp = true ∨ Closed g)
    (ha : Acyclic g) :
    let r := execute g
    (∀ id, id ∈ r.2 ↔ (id ∈ allNodes g ∧ ¬ completed (g.node id) = true)) ∧
    r.2.Nodup ∧
    (∀ p d, (p, d) ∈ edges g → p ∈ r.2 → d ∈ r.2 → r.2.idxOf p < r.2.idxOf d) ∧
    (∀ id ∈ allNodes g, completed (r.1.node id) = true) ∧
    SameShape g r.1 :=
  execute_spec g hc hcl ha

/-- nodes that are complete beforehand are not run and stay complete -/
theorem C30_execute_skips_completed (g : G) (hc : Consistent g)
    (hcl : g.biProp = true ∨ Closed g) (ha : Acyclic g) (id : Nat)
    (h : completed (g.node id) = true) : id ∉ (execute g).2 := by
  intro hm
  exact ((execute_spec g hc hcl ha).1 id).1 hm |>.2 h

/-- Graphs built from the empty graph by `addSubgraph` / `addNode` / `dependsOn` /
    `biPropDependsOn` (between live nodes) are consistent and closed with every node incomplete, `inc = numPred =` in-degree. -/
theorem C30_construction_consistent (b : Bool) (g : G) (hbuilt : Built b g) (hb : EdgeBound g) :
    Consistent g ∧ Closed g ∧ WF g ∧ PredOK g ∧
    (∀ n, (g.node n).alive = true → ¬ completed (g.node n) = true) ∧
    (∀ n, (g.node n).alive = true → (g.node n).inc = (g.node n).numPred ∧
      (g.node n).numPred = indeg g n) := by
  have hf := hbuilt.fresh hb
  have hc := hf.consistent hb
  exact ⟨hc.1, hc.2.1, hf.wf, hf.pred, hc.2.2, fun n hn => ⟨hf.inc n hn, hf.pred n hn⟩⟩

/-- so a freshly built acyclic graph can be executed directly: every node runs once, in
    dependency order -/
theorem C30_construction_execute (b : Bool) (g : G) (hbuilt : Built b g) (hb : EdgeBound g)
    (ha : Acyclic g) :
    let r := execute g
    (∀ id, id ∈ r.2 ↔ id ∈ allNodes g) ∧ r.2.Nodup ∧
    (∀ p d, (p, d) ∈ edges g → r.2.idxOf p < r.2.idxOf d) ∧
    (∀ id ∈ allNodes g, completed (r.1.node id) = true) := by
  obtain ⟨hc, hcl, hw, _, hall, _⟩ := C30_construction_consistent b g hbuilt hb
  obtain ⟨h1, h2, h3, h4, _⟩ := execute_spec g hc (Or.inr hcl) ha
  have hmem : ∀ id, id ∈ (execute g).2 ↔ id ∈ allNodes g := by
    intro id
    rw [h1 id]
    constructor
    · exact fun h => h.1
    · exact fun h => ⟨h, hall id ((hw.mem_all id).1 h)⟩
  refine ⟨hmem, h2, ?_, h4⟩
  intro p d he
  have hp := (mem_edges.1 he).1
  have hd := hw.deps_live p d he
  exact h3 p d he ((hmem p).2 ((hw.mem_all p).2 hp)) ((hmem d).2 ((hw.mem_all d).2 hd))

/-- `setAllNodesIncomplete` makes any well-formed graph with correct `numPred` consistent and
    closed with every node incomplete (only `inc` fields change). -/
theorem C30_setAll_consistent (g : G) (hw : WF g) (hp : PredOK g) (hb : EdgeBound g) :
    Consistent (setAllNodesIncomplete g) ∧ Closed (setAllNodesIncomplete g) ∧
    (∀ n, ((setAllNodesIncomplete g).node n).alive = true →
      ¬ completed ((setAllNodesIncomplete g).node n) = true) ∧
    SameShape g (setAllNodesIncomplete g) :=
  setAll_spec g hw hp hb

/-- `SubgraphT::clear`: the nodes of the subgraph are destroyed, the remaining edges are exactly
    the edges that do not touch a node of the subgraph (as a multiset), the remaining nodes keep
    their liveness, `numPred` of the remaining nodes is their remaining in-degree, and the structural
    invariants survive, so the graph can be extended, re-armed and executed again. -/
theorem C30_clear (g : G) (s : Nat) (hw : WF g) (hp : PredOK g) (hb : EdgeBound g) :
    let g' := clearSubgraph g s
    let S := g.subs.getD s []
    edges g' ~ (edges g).filter (fun e => decide (e.1 ∉ S ∧ e.2 ∉ S)) ∧
    (∀ i ∈ S, g'.node i = dead) ∧
    (∀ i, (g'.node i).alive = true ↔ ((g.node i).alive = true ∧ i ∉ S)) ∧
    g'.subs = g.subs.set s [] ∧
    WF g' ∧ PredOK g' ∧ EdgeBound g' := by
  have h := clear_res g s hw hp hb
  exact ⟨h.edges_perm, h.dead, h.alive_iff, h.subs, h.wf hw, h.predOK hp, h.edgeBound hb⟩

/-- after a clear the graph can be re-armed and executed: every remaining node runs -/
theorem C30_clear_then_setAll (g : G) (s : Nat) (hw : WF g) (hp : PredOK g) (hb : EdgeBound g) :
    let g' := setAllNodesIncomplete (clearSubgraph g s)
    Consistent g' ∧ Closed g' := by
  obtain ⟨_, _, _, _, hw', hp', hb'⟩ := C30_clear g s hw hp hb
  have := setAll_spec (clearSubgraph g s) hw' hp' hb'
  exact ⟨this.1, this.2.1⟩

/-! ### concrete instances -/

def mk5 (b : Bool) : G :=
  (addNode (addNode (addNode (addNode (addNode (G.init b) 0).1 0).1 0).1 0).1 0).1

/-- the diamond N4←{N1,N3}, N1←N0, N3←N2 with N4 created first (ids: N4=0, N1=1, N3=2, N0=3, N2=4) -/
def diamond (b : Bool) : G :=
  dependsOn (dependsOn (dependsOn (dependsOn (mk5 b) 0 1) 0 2) 1 3) 2 4

example : (execute (diamond false)).2 = [3, 4, 1, 2, 0] := by decide
example : (execute (diamond true)).2 = [3, 4, 1, 2, 0] := by decide
example : ∀ id ∈ allNodes (diamond false),
    completed ((execute (diamond false)).1.node id) = true := by decide
/-- a second execution without re-arming runs nothing -/
example : (execute (execute (diamond false)).1).2 = [] := by decide
example : (execute (setAllNodesIncomplete (execute (diamond false)).1)).2 = [3, 4, 1, 2, 0] := by
  decide

/-- two subgraphs: sub 0 = {0, 3}, sub 1 = {1, 2}; edges 0→1, 0→3, 1→3, 1→2 -/
def twoSubs : G :=
  let g := (addSubgraph (G.init false)).1
  let g := (addNode (addNode (addNode (addNode g 0).1 1).1 1).1 0).1
  dependsOn (dependsOn (dependsOn (dependsOn g 1 0) 3 1) 2 1) 3 0

example : edges twoSubs = [(0, 1), (0, 3), (1, 3), (1, 2)] := by decide
example : edges (clearSubgraph twoSubs 1) = [(0, 3)] := by decide
example : ((clearSubgraph twoSubs 1).node 3).numPred = 1 := by decide
example : edges (clearSubgraph twoSubs 0) = [(1, 2)] := by decide
example : allNodes (clearSubgraph twoSubs 0) = [1, 2] := by decide
example : (execute (setAllNodesIncomplete (clearSubgraph twoSubs 1))).2 = [0, 3] := by decide

end Dispenso.Graph
