import DispensoVerif.Proofs.SchedReach

/-!
# C02 — `TaskSet::wait` / `ConcurrentTaskSet::wait` is a barrier for the tasks of the set

Model: `DispensoVerif/Model/Sched.lean`; `outstanding S` models `outstandingTaskCount_` of set
`S ≠ 0`.  The counter is, at every moment, exactly: the credits of submission calls in progress
on `S` (incremented, task not yet placed) + the packaged tasks of `S` sitting in a tier (or taken
and not yet identified) + those that passed their guard and have not begun + the packaged bodies
of `S` that are running + the decrements that are due.  `wait()` / `tryWait()` only report
completion after reading the counter as zero (`tsZero`), and at that moment no packaged task of
the set is queued, held, running or owes its decrement.
-/
namespace Dispenso.Sched

/-- the exact meaning of `outstandingTaskCount_` -/
theorem C02_outstanding_exact {s : St} (h : Reach s) (S : Nat) (hS : S ≠ 0) :
    s.outstanding S =
      ((((allFrames s).filter (fun f => f.set = S)).map Frame.tsCredit).sum : Nat)
      + (s.queuedSets.count S : Nat)
      + ((allFrames s).countP (fun f => f.pend = .guarded S) : Nat)
      + ((allFrames s).countP (fun f => f.kind = .run ∧ f.packaged = true ∧ f.set = S) : Nat)
      + ((allFrames s).countP (fun f => f.pendDec = some S) : Nat) := by
  have := (Inv.reach h).out S hS
  rw [tot_eq, tot_eq, tot_eq, tot_eq] at this
  rw [this]
  unfold mTs mGuarded mRunPk mPendDec
  rw [ind_sum_eq_countP, ind_sum_eq_countP, ind_sum_eq_countP, ite_sum_eq_filter]

/-- only frames of submission calls hold credits of the counter -/
theorem C02_credit_only_in_calls {s : St} (h : Reach s) {f : Frame} (hf : f ∈ allFrames s)
    (hk : f.kind ≠ .sched) (hk' : f.kind ≠ .bulk) : f.tsCredit = 0 :=
  (((Inv.reach h).frameOK hf).2.2.1 hk hk').2.1

/-- the barrier: when the counter of `S` is zero, no packaged task of `S` is queued, none is held
after its guard, none is running, none owes its decrement, and no submission call holds a credit
(so no inline packaged body of `S` can begin either, see `C02_barrier_no_inline_begin`) -/
theorem C02_barrier {s : St} (h : Reach s) (S : Nat) (hS : S ≠ 0) (hz : s.outstanding S = 0) :
    S ∉ s.queuedSets ∧
    ∀ f ∈ allFrames s, f.pend ≠ .guarded S ∧ ¬ (f.kind = .run ∧ f.packaged = true ∧ f.set = S) ∧
      f.pendDec ≠ some S ∧ (f.set = S → f.tsCredit = 0) := by
  have ho := (Inv.reach h).out S hS
  rw [hz] at ho
  have h1 : tot (mTs S) s = 0 := by omega
  have h2 : s.queuedSets.count S = 0 := by omega
  have h3 : tot (mGuarded S) s = 0 := by omega
  have h4 : tot (mRunPk S) s = 0 := by omega
  have h5 : tot (mPendDec S) s = 0 := by omega
  refine ⟨fun hm => ?_, fun f hf => ⟨?_, ?_, ?_, ?_⟩⟩
  · have := List.count_pos_iff.2 hm; omega
  · have := (tot_eq_zero _ s).1 h3 f hf
    simpa [mGuarded] using this
  · have := (tot_eq_zero _ s).1 h4 f hf
    simpa [mRunPk] using this
  · have := (tot_eq_zero _ s).1 h5 f hf
    simpa [mPendDec] using this
  · intro hset
    have := (tot_eq_zero _ s).1 h1 f hf
    simpa [mTs, hset] using this

/-- with the counter at zero, a call that decided to run a packaged task of `S` inline cannot
begin its body (it would need a credit) -/
theorem C02_barrier_no_inline_begin {s : St} (h : Reach s) (S : Nat) (hS : S ≠ 0)
    (hz : s.outstanding S = 0) (t id : Nat) (hp : (s.top t).pend = .inlGuarded S) :
    step s t (.begin_ id) = none := by
  cases hstep : step s t (.begin_ id) with
  | none => rfl
  | some s' =>
    exfalso
    have hI := Inv.reach h
    obtain ⟨f, rest, hs, hst⟩ := step_inv' hstep
    rw [top_eq hs] at hp
    have ht : t ∈ s.tids := by
      refine Classical.byContradiction fun hn => ?_
      have := hI.wf.out t hn
      rw [this] at hs
      simp only [norm_nil, List.cons.injEq] at hs
      rw [← hs.1] at hp
      simp at hp
    have hf : f ∈ allFrames s := mem_allFrames_of ht (by rw [hs]; simp)
    have hb := (C02_barrier h S hS hz).2 f hf
    have f1 := (hI.frame hs).1
    cases hst <;> simp_all

/-- `tsZero` (the read that lets `wait` / `tryWait` return) only happens when the counter is zero -/
theorem C02_zero_observed {s s' : St} {t S : Nat} (hs : step s t (.tsZero S) = some s') :
    s.outstanding S = 0 := by
  obtain ⟨f, rest, _, hst⟩ := step_inv' hs
  cases hst with
  | tsZeroWait _ hz _ _ => exact hz
  | tsZeroOther _ hz _ => exact hz

/-- a wait that reports completion has observed the counter at zero in this call -/
theorem C02_wait_reports_done_only_after_zero {s s' : St} {t S : Nat} {exc : Bool}
    (hs : step s t (.retWait S true exc) = some s') : (s.top t).zeroSeen = true := by
  obtain ⟨f, rest, hf, hst⟩ := step_inv' hs
  cases hst with
  | retWait _ _ _ hk hset hst hz hexc hc => rw [top_eq hf]; exact hz rfl

/-- the `zeroSeen` flag of a wait frame was set by a `tsZero` event of this call: it is false when
the call starts -/
theorem C02_wait_starts_unobserved {s s' : St} {t S : Nat} (hs : step s t (.callWait S) = some s') :
    (s'.top t).zeroSeen = false ∧ (s'.top t).kind = .wait ∧ (s'.top t).set = S := by
  obtain ⟨f, rest, hf, hst⟩ := step_inv' hs
  cases hst with
  | callWait _ hp => simp [St.top, stack_eq_norm]

/-- task level: when the counter of `S` is zero and no submission call on `S` is in progress,
every body of `S` that began has ended -/
theorem C02_bodies_complete {s : St} (h : Reach s) (S : Nat) (hS : S ≠ 0)
    (hz : s.outstanding S = 0)
    (hno : ∀ f ∈ allFrames s, (f.kind = .sched ∨ f.kind = .bulk) → f.set ≠ S)
    (id : Nat) (hsub : (id, S) ∈ s.sub) (hb : id ∈ s.begun) : id ∈ s.ended := by
  have hI := Inv.reach h
  refine Classical.byContradiction fun he => ?_
  have hr := hI.runs id
  have h1 := List.count_pos_iff.2 hb
  have h2 := List.count_eq_zero_of_not_mem he
  have hpos : tot (mRun id) s ≠ 0 := by omega
  have : ¬ ∀ f ∈ allFrames s, mRun id f = 0 := fun hall => hpos ((tot_eq_zero _ s).2 hall)
  obtain ⟨f, hf'⟩ := Classical.not_forall.1 this
  obtain ⟨hf, hm⟩ := Classical.not_imp.1 hf'
  have hrun : f.kind = .run ∧ f.id = id := by
    refine Classical.byContradiction fun hn => ?_
    exact hm (by simp [mRun, hn])
  have hfok := hI.frameOK hf
  have hfs : f.set = S := by
    have := hfok.2.2.2.2 hrun.1
    rw [hrun.2] at this
    exact sub_unique hI.subNd this hsub
  have hbar := (C02_barrier h S hS hz).2 f hf
  have hpk : f.packaged = false := by
    cases hp : f.packaged with
    | false => rfl
    | true => exact absurd ⟨hrun.1, hp, hfs⟩ hbar.2.1
  obtain ⟨t, ht, hft⟩ := mem_allFrames hf
  obtain ⟨g, hlk, hg⟩ := StackOK_link (hI.stk t) f hft
  have := (hlk hrun.1).2 hpk (by rw [hfs]; exact hS)
  rcases hg with rfl | hg
  · simp at this
  · exact hno g (mem_allFrames_of ht hg) this.1 (by rw [this.2, hfs])

/-- counting form: under the same hypotheses each submitted task of `S` began (once, `C01`), or
was skipped by its package wrapper / dropped by `schedule` because the set was cancelled -/
theorem C02_tasks_accounted {s : St} (h : Reach s) (S : Nat) (hS : S ≠ 0)
    (hz : s.outstanding S = 0)
    (hno : ∀ f ∈ allFrames s, (f.kind = .sched ∨ f.kind = .bulk) → f.set ≠ S) :
    (s.sub.filter (fun p => p.2 = S)).length
      = (s.begun.filter (fun id => (id, S) ∈ s.sub)).length + s.skipped S + s.dropped S := by
  have hI := Inv.reach h
  have hbar := C02_barrier h S hS hz
  have hc := hI.cons S
  have hr : tot (mResv S) s = 0 := (tot_eq_zero _ s).2 fun f hf => by
    have hfok := hI.frameOK hf
    by_cases hk : f.kind = .sched ∨ f.kind = .bulk
    · have hne := hno f hf hk
      simp only [mResv, List.length_eq_zero_iff, List.filter_eq_nil_iff, decide_eq_true_eq]
      intro p hp hp2
      exact hne ((hfok.1 p hp).2.symm.trans hp2)
    · simp only [not_or] at hk
      simp [mResv, (hfok.2.2.1 hk.1 hk.2).2.2.1]
  have hg : tot (mGuarded S) s = 0 := (tot_eq_zero _ s).2 fun f hf => by
    simp [mGuarded, (hbar.2 f hf).1]
  have hq : s.queuedSets.count S = 0 := List.count_eq_zero_of_not_mem hbar.1
  rw [hr, hg, hq] at hc
  simp only [subOf, begunOf] at hc
  omega

/-! ### non-vacuity -/


example : (run (St.init 0) sampleSetTrace).map
    (fun s => (s.outstanding 1, s.sub, s.begun, s.ended, s.quiescent))
    = some (0, [(7, 1)], [7], [7], true) := rfl

/-- the zero observation is rejected while the task is still queued -/
example : (run (St.init 0) (sampleSetTrace.take 9 ++ [(0, .callWait 1), (0, .tsZero 1)])).isSome
    = false := rfl

end Dispenso.Sched
