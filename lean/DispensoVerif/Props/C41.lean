import DispensoVerif.Proofs.SmallBuf
/-
C41 — `allocSmallBuffer<N>()` / `SmallBufferAllocator<kChunkSize>`: exclusive aligned blocks.

Model: `Model/SmallBuf.lean` (block tokens; central store as a bag; per-thread caches; slab carving
under the `backingStoreLock`; the `bytesAllocated()` CAS loop; cross-thread `dealloc`; thread exit),
one action per shared-memory operation, any number of threads, any interleaving (`Reachable`).
For every configuration with `1 ≤ I ≤ P` (`I = kIdealNumTLBuffers`, `P = kBuffersPerMalloc`):

* `C41_conservation` / `C41_exclusive`: in every reachable state every block of every slab obtained so
  far is in exactly one place (central store, one thread's cache or local array, or handed out);
* `C41_alloc_fresh`: the block `alloc` returns was not handed out, and `alloc` at its last step can
  always return one (`tlBuffers[--tlCount]` never underflows); `C41_live_leaves_only_by_dealloc`: a
  handed-out block stops being handed out only through `dealloc` of that block — together: never
  handed out again before it is deallocated; `C41_cache_bounds`: `tlCount ≤ kMaxNumTLBuffers`;
* `C41_blocks_aligned_disjoint` / `C41_live_blocks_disjoint`: with slab bases aligned to `N` and slabs
  pairwise disjoint (what `alignedMalloc` returns), distinct block tokens are `N`-aligned, inside their
  slab and pairwise disjoint byte ranges; `C41_class_size`: for every power of two `N ≤ 256` the class
  chosen by `getOrdinal` has blocks of `max N 4 ≥ N` bytes, a multiple of `N`
  (non-powers of two are excluded by the documented precondition: `C41_nonpow2_too_small`);
* `C41_lock_mutex`: with the repaired `bytesAllocated()` the lock word is 0 exactly when no thread
  is inside a critical section and at most one thread is — over all lock users;
  `C41_old_lock_broken`: with the CAS loop as found (`expected` keeps the observed value) two
  threads are inside at once in a reachable state (a slab allocator and the diagnostics call, which
  then releases the lock under the allocator: `C41_old_two_carvers`).
  `C41_backing_complete`: with the repaired lock `backingStore` holds every slab exactly once and
  `bytesAllocated()` reads the exact count;
* thread exit: the theorems above are for `~PerThreadQueuingData` resetting `tlCount` after it
  returned the cache (`exitResets`); with the destructor as found, a later allocator call on the
  exiting thread (from another `thread_local` destructor) pops the stale cache and a block has two
  owners: `C41_old_exit_double_handout`.
The block-token theorems hold for both variants of the CAS loop (`push_back` on `backingStore` is
split into two model steps, but a racing `push_back` in the real code is undefined behaviour — a
heap-use-after-free in practice — which no model of ours exhibits).
-/
namespace Dispenso.SmallBuf
open List

/-- **C41.1** token conservation: the blocks present in a reachable state are exactly the blocks of
the slabs obtained so far, each once. -/
theorem C41_conservation (c : Cfg) (hI : 1 ≤ c.I) (hP : c.I ≤ c.P) (hE : c.exitResets = true) (s : St) (h : Reachable c s) :
    blocks s ~ List.range (s.sh.nextChunk * c.P) :=
  (reachable_inv c hI hP hE h).perm

/-- **C41.1'** a block is never in two places at once (central store, a cache, a local array, the
client), nor twice in one. -/
theorem C41_exclusive (c : Cfg) (hI : 1 ≤ c.I) (hP : c.I ≤ c.P) (hE : c.exitResets = true) (s : St) (h : Reachable c s) :
    (blocks s).Nodup :=
  (C41_conservation c hI hP hE s h).nodup_iff.mpr nodup_range

/-- **C41.2** the last step of `alloc` always succeeds and returns a block that was not handed out. -/
theorem C41_alloc_fresh (c : Cfg) (hI : 1 ≤ c.I) (hP : c.I ≤ c.P) (hE : c.exitResets = true) (s : St) (h : Reachable c s)
    (t : TId) (x : Thr) (hf : findT s t = some x) (hp : x.pc = .aPop) :
    ∃ b s', exec c s (.step t) = some s' ∧ b ∈ x.cache ∧ b ∉ s.sh.live ∧ b ∉ s.sh.central ∧
      s'.sh.live = b :: s.sh.live ∧
      findT s' t = some { x with pc := .aRet b, cache := x.cache.dropLast } := by
  have I := reachable_inv c hI hP hE h
  have hm := (findT_some hf).1
  have hx := I.tinv x hm
  simp only [TInv, hp] at hx
  obtain ⟨b, hb⟩ : ∃ b, x.cache.getLast? = some b := by
    cases hl : x.cache.getLast? with
    | none => exact absurd (getLast?_eq_none_iff.mp hl) hx.2.1
    | some b => exact ⟨b, rfl⟩
  have hbc : b ∈ x.cache := mem_of_getLast? hb
  have hnd := C41_exclusive c hI hP hE s h
  unfold blocks at hnd
  have hbt : b ∈ s.thr.flatMap tblocks := mem_flatMap.mpr ⟨x, hm, by simp [tblocks, hbc]⟩
  rw [nodup_append] at hnd
  have hd := hnd.2.2
  refine ⟨b, put s x ({ s.sh with live := b :: s.sh.live }, { x with pc := .aRet b, cache := x.cache.dropLast }),
    by simp [exec, hf, tstep, hp, hb], hbc, ?_, ?_, rfl, ?_⟩
  · intro hl; exact hd b (mem_append_right _ hl) b hbt rfl
  · intro hl; exact hd b (mem_append_left _ hl) b hbt rfl
  · have := (findT_some hf).2
    simp [findT, put, this]

/-- **C41.2'** a block that is handed out stops being handed out only by a `dealloc` of that block. -/
theorem C41_live_leaves_only_by_dealloc (c : Cfg) (s s' : St) (a : Act) (h : exec c s a = some s')
    (b : Blk) (hb : b ∈ s.sh.live) (hb' : b ∉ s'.sh.live) : ∃ t, a = .call t (.dealloc b) :=
  live_leaves c h hb hb'

/-- **C41.3** `tlCount` never exceeds `kMaxNumTLBuffers` (the thread-local array is not overrun). -/
theorem C41_cache_bounds (c : Cfg) (hI : 1 ≤ c.I) (hP : c.I ≤ c.P) (hE : c.exitResets = true) (s : St) (h : Reachable c s) :
    ∀ x ∈ s.thr, x.cache.length ≤ 2 * c.I := by
  intro x hx
  exact tinv_cache_le c ((reachable_inv c hI hP hE h).tinv x hx)

/-- **C41.4** address arithmetic: with every slab base a multiple of `N` and the slabs (of `P * N`
bytes) pairwise disjoint, every block is `N`-aligned and lies inside its slab, and distinct blocks
occupy disjoint byte ranges. -/
theorem C41_blocks_aligned_disjoint (base : Nat → Nat) (P N : Nat) (hP : 0 < P)
    (hal : ∀ ch, N ∣ base ch)
    (hdis : ∀ ch ch', ch ≠ ch' → base ch + P * N ≤ base ch' ∨ base ch' + P * N ≤ base ch) :
    (∀ b, N ∣ blkAddr base P N b) ∧
    (∀ b, base (b / P) ≤ blkAddr base P N b ∧ blkAddr base P N b + N ≤ base (b / P) + P * N) ∧
    (∀ b b', b ≠ b' → blkAddr base P N b + N ≤ blkAddr base P N b' ∨
                      blkAddr base P N b' + N ≤ blkAddr base P N b) :=
  ⟨blk_aligned base P N hal, blk_inside base P N hP, blk_disjoint base P N hP hdis⟩

/-- **C41.4'** no two blocks present in a reachable state (in particular no two handed-out blocks)
overlap. -/
theorem C41_live_blocks_disjoint (c : Cfg) (hI : 1 ≤ c.I) (hP : c.I ≤ c.P) (hE : c.exitResets = true) (s : St) (h : Reachable c s)
    (base : Nat → Nat) (N : Nat)
    (hdis : ∀ ch ch', ch ≠ ch' → base ch + c.P * N ≤ base ch' ∨ base ch' + c.P * N ≤ base ch) :
    (s.sh.live).Pairwise fun b b' =>
      blkAddr base c.P N b + N ≤ blkAddr base c.P N b' ∨ blkAddr base c.P N b' + N ≤ blkAddr base c.P N b := by
  have hnd := C41_exclusive c hI hP hE s h
  unfold blocks at hnd
  have hl : s.sh.live.Nodup := (nodup_append.mp (nodup_append.mp hnd).1).2.1
  exact hl.imp fun {b b'} hne => blk_disjoint base c.P N (by omega) hdis b b' hne

/-- **C41.5** class selection: for every power of two `N ≤ 256` the selected class has blocks of
`max N 4` bytes (at least `N`, a multiple of `N`), and the per-class constants satisfy
`1 ≤ I`, `P = 4 * I`, `maxTL = 2 * I`. -/
theorem C41_class_size (k : Nat) (hk : k ≤ 8) :
    let N := 2 ^ k
    let S := classSize (getOrdinal N)
    getOrdinal N ≤ 6 ∧ S = max N 4 ∧ N ≤ S ∧ N ∣ S ∧
    1 ≤ idealTL S ∧ perMalloc S = 4 * idealTL S ∧ maxTL S = 2 * idealTL S ∧ S * perMalloc S = mallocBytes S := by
  have : k = 0 ∨ k = 1 ∨ k = 2 ∨ k = 3 ∨ k = 4 ∨ k = 5 ∨ k = 6 ∨ k = 7 ∨ k = 8 := by omega
  rcases this with rfl | rfl | rfl | rfl | rfl | rfl | rfl | rfl | rfl <;> decide

/-- the power-of-two precondition of `allocSmallBuffer` is needed: a 5-byte request is served from
the 4-byte class. -/
theorem C41_nonpow2_too_small : classSize (getOrdinal 5) = 4 := by decide

/-- **C41.6** (repaired `bytesAllocated`) mutual exclusion of `backingStoreLock` over all its users:
the word is 0 exactly when nobody is inside, and at most one thread is inside. -/
theorem C41_lock_mutex (c : Cfg) (hI : 1 ≤ c.I) (hP : c.I ≤ c.P) (hE : c.exitResets = true) (hf : c.fixed = true) (s : St)
    (h : Reachable c s) : (s.sh.lock = 0 ↔ holders s = 0) ∧ holders s ≤ 1 :=
  reachable_minv c hI hP hE hf h

/-- the schedule that breaks the lock as found: thread 0 wins the lock in `alloc`, thread 1 calls
`bytesAllocated()`: its first CAS fails and leaves 1 in `expected`, the second CAS(1 → 1) succeeds. -/
def oldWitness : List Act :=
  [.call 0 .alloc, .step 0, .deq 0 [], .step 0, .call 1 .bytes, .step 1, .step 1]

/-- **C41.6-old** with the CAS loop as found, two threads are inside the critical section. -/
theorem C41_old_lock_broken :
    ∃ s, Reachable { I := 1, P := 4, fixed := false, exitResets := true } s ∧ holders s = 2 := by
  refine ⟨(run { I := 1, P := 4, fixed := false, exitResets := true } St.init oldWitness).get (by decide), ?_, by decide⟩
  exact reachable_of_run _ oldWitness _ _ .init (Option.some_get _).symm

/-- … and the diagnostics call then releases the lock under the allocating thread, so a second
allocating thread enters: two threads between `alignedMalloc` and the end of `push_back`, and after
both are done one slab is missing from `backingStore`. -/
def oldWitness2 : List Act :=
  oldWitness ++ [.step 0, .step 0, .step 1, .step 1, .call 2 .alloc, .step 2, .deq 2 [], .step 2, .step 2, .step 2,
                 .step 0, .step 2]

theorem C41_old_two_carvers :
    ∃ s, Reachable { I := 1, P := 4, fixed := false, exitResets := true } s ∧
      s.sh.nextChunk = 2 ∧ s.sh.backing.length = 1 ∧ (s.thr.filter fun x => pushing x.pc).length = 0 := by
  refine ⟨(run { I := 1, P := 4, fixed := false, exitResets := true } St.init oldWitness2).get (by decide), ?_, by decide, by decide, by decide⟩
  exact reachable_of_run _ oldWitness2 _ _ .init (Option.some_get _).symm

/-- **C41.7** (repaired lock) `backingStore` records every slab exactly once: whenever no thread is
between `alignedMalloc` and the end of `push_back`, it is `[0, …, slabs-1]`; in particular the value
`bytesAllocated()` reads inside its critical section is the exact number of slabs. -/
theorem C41_backing_complete (c : Cfg) (hI : 1 ≤ c.I) (hP : c.I ≤ c.P) (hE : c.exitResets = true)
    (hf : c.fixed = true) (s : St) (h : Reachable c s) :
    ((∀ x ∈ s.thr, pushing x.pc = false) → s.sh.backing = List.range s.sh.nextChunk) ∧
    (∀ x ∈ s.thr, x.pc = .bRead → s.sh.backing.length = s.sh.nextChunk) := by
  have hB := reachable_binv c hI hP hE hf h
  have M := reachable_minv c hI hP hE hf h
  refine ⟨hB.2, fun x hx hp => ?_⟩
  have hall : ∀ y ∈ s.thr, pushing y.pc = false := by
    intro y hy
    by_cases he : y = x
    · rw [he, hp]; rfl
    · by_contra hq
      have hq' : pushing y.pc = true := by simpa using hq
      have := others_outside hx M (by simp [hp, inCS]) y ((mem_erase_of_ne he).mpr hy)
      rw [pushing_inCS hq'] at this
      cases this
  rw [hB.2 hall, length_range]

/-- the thread-exit schedule that hands a block out twice with `~PerThreadQueuingData` as found
(`tlCount` keeps its value): thread 0 allocates block 3, frees it (it sits in its cache), exits (the
cache goes to the central store), thread 1 gets block 3 from the central store, and a late call of
thread 0 (another `thread_local` destructor) pops block 3 from the stale cache. -/
def oldExitWitness : List Act :=
  [.call 0 .alloc, .step 0, .deq 0 [], .step 0, .step 0, .step 0, .step 0, .step 0, .step 0, .step 0, .step 0, .ret 0,
   .call 0 (.dealloc 3), .step 0, .ret 0, .exit 0,
   .call 1 .alloc, .step 1, .deq 1 [3], .step 1, .ret 1,
   .call 0 .alloc, .step 0, .step 0]

/-- **C41.1-old** with `~PerThreadQueuingData` as found, a block is handed out to two owners. -/
theorem C41_old_exit_double_handout :
    ∃ s, Reachable { I := 1, P := 4, fixed := true, exitResets := false } s ∧ ¬ s.sh.live.Nodup := by
  refine ⟨(run { I := 1, P := 4, fixed := true, exitResets := false } St.init oldExitWitness).get (by decide), ?_, by decide⟩
  exact reachable_of_run _ oldExitWitness _ _ .init (Option.some_get _).symm

/-- the same schedule on the repaired destructor: the late call finds an empty cache and refills. -/
example : (run { I := 1, P := 4, fixed := true, exitResets := true } St.init oldExitWitness.dropLast).map
    (fun s => (s.sh.live, (findT s 0).map (·.pc))) = some ([3], some .gDeq) := by decide

/-! ### non-vacuity -/
example : (run { I := 2, P := 8, fixed := true, exitResets := true } St.init
    [.call 0 .alloc, .step 0, .deq 0 [], .step 0, .step 0, .step 0, .step 0, .step 0, .step 0, .step 0,
     .step 0, .ret 0, .call 1 .alloc, .step 1, .deq 1 [0, 1], .step 1, .ret 1,
     .call 1 (.dealloc 7), .step 1, .ret 1, .exit 1]).map (fun s => (s.sh.central, s.sh.live, s.exited))
    = some ([2, 3, 4, 5, 0, 7], [1], [1]) := by decide

end Dispenso.SmallBuf
