import DispensoVerif.Proofs.RWLock

/-!
# C22 — `RWLockImpl`: exclusion, sound `try_*`, roll-back, no lost wake-up, no deadlock

Model: `DispensoVerif/Model/RWLock.lean` (one action per atomic operation / futex call of
`dispenso/detail/rw_lock_impl.h`), generic interleaving semantics `DispensoVerif/Core/Conc.lean`
(any number of threads, any schedule, spurious wake-ups).  Field 0 is the lock word
`count + (bit ? W : 0)`, `W = 2^31`.

All statements are about states reachable from `init` with fewer than `2^30` threads (so that the
reader count cannot reach the writer bit and `wake(INT_MAX)` reaches every parked thread).  The
usage contract (acquire only when holding nothing, release/convert only what is held) is part of
the model (`entry`).  None of the theorems needs the "single upgrader" contract
(`UpgradeContract`): two concurrent upgraders cannot break exclusion, and the state in which one of
them is parked for ever is not a *deadlock* in the sense of `C22_no_deadlock` because the other one
spins for ever in `upOr` (see `C22_two_upgraders_stuck`); spin-progress is not formalised.
-/
namespace Dispenso.RWLock
open Dispenso.Conc

/-- write-type calls -/
def isWriteCall : L → Bool
  | .lkOr | .tlOr | .upOr => true
  | _ => false

/-- either nobody ever upgrades, or all write-type calls are made by one thread `w` -/
def UpgradeContract (as : List (Act proto)) : Prop :=
  (∀ a ∈ as, ∀ t, a ≠ Act.call t L.upOr) ∨
  (∃ w, ∀ a ∈ as, ∀ t l, a = Act.call t l → isWriteCall l = true → t = w)

/-- number of threads that account for one unit of the reader count: read-lock holders, threads
inside `unlock_shared`/`lock_upgrade` before their decrement, a downgrader after its increment, and
optimistic increments of `lock_shared`/`try_lock_shared` not yet backed out -/
def readerUnits (s : State proto) : Nat := (s.threads.filter fun u => contributes (s.loc u)).length

/-- number of optimistic `lock_shared`/`try_lock_shared` increments that saw the writer bit and
are about to be backed out -/
def optimisticUnits (s : State proto) : Nat :=
  (s.threads.filter fun u => optimistic (s.loc u)).length

theorem readerUnits_eq (s : State proto) : readerUnits s = cnt contributes s := by
  simp [readerUnits, cnt, List.countP_eq_length_filter]

theorem optimisticUnits_eq (s : State proto) : optimisticUnits s = cnt optimistic s := by
  simp [optimisticUnits, cnt, List.countP_eq_length_filter]

/-- the invariant of `Proofs/RWLock.lean` holds in every reachable state -/
theorem C22_inv (s : State proto) (h : Reachable init s) (hn : s.threads.length < 2 ^ 30) :
    Inv s := inv_reachable s h hn

/-- **C22.1** a thread holding the write lock excludes every other holder, reader or writer. -/
theorem C22_exclusion (s : State proto) (h : Reachable init s) (hn : s.threads.length < 2 ^ 30)
    (t u : TId) : holdOf (s.loc t) = .write → holdOf (s.loc u) ≠ .none → t = u :=
  fun ht hu => (C22_inv s h hn).exclusion ht hu

/-- **C22.2a** word decomposition: the lock word is the number of reader units, plus the writer
bit iff some (then unique) thread is between its successful `fetch_or` and its `fetch_and`. -/
theorem C22_word (s : State proto) (h : Reachable init s) (hn : s.threads.length < 2 ^ 30) :
    ((∃ t, bitOwner (s.loc t) = true) → s.mem 0 = W + (readerUnits s : Int)) ∧
    ((∀ t, bitOwner (s.loc t) = false) → s.mem 0 = (readerUnits s : Int)) ∧
    (readerUnits s : Int) < W ∧
    (∀ t u, bitOwner (s.loc t) = true → bitOwner (s.loc u) = true → t = u) := by
  have I := C22_inv s h hn
  rw [readerUnits_eq]
  exact ⟨(I.word_cases hn).1, (I.word_cases hn).2.1, (I.word_cases hn).2.2,
    fun t u ht hu => I.unique ht hu⟩

/-- **C22.2b** `lock`/`try_lock`/`lock_upgrade` returning (local state `done _ write`) really
acquired: the writer bit is set, and the count consists only of optimistic increments of readers
that saw the bit and will back out — no thread holds a read lock, is releasing one, is upgrading,
or has downgraded.  `lock_shared`/`try_lock_shared`/`lock_downgrade` returning with a read lock
(`done _ read`): the thread is counted in the word and no thread holds the write lock (a writer
may have set the bit, but it is still draining). -/
theorem C22_try_sound (s : State proto) (h : Reachable init s) (hn : s.threads.length < 2 ^ 30)
    (t : TId) :
    (holdOf (s.loc t) = .write →
      s.mem 0 = W + (optimisticUnits s : Int) ∧ ∀ u, hard (s.loc u) = false) ∧
    (holdOf (s.loc t) = .read →
      1 ≤ s.mem 0 % W ∧ ∀ u, holding (s.loc u) = false) := by
  have I := C22_inv s h hn
  rw [optimisticUnits_eq]
  exact ⟨fun ht => I.write_sound hn ht, fun ht => I.read_sound hn ht⟩

/-- **C22.3** a failing `try_lock` that set the bit clears exactly the bit it set: when it leaves
`tlRollback` it still owns the bit, and the word afterwards is the word before minus `W` (i.e. as
it found it, modulo concurrent readers); the call returns `false` holding nothing. -/
theorem C22_failed_try_lock_restores (s : State proto) (h : Reachable init s)
    (hn : s.threads.length < 2 ^ 30) (t : TId) (s' : State proto)
    (hl : s.loc t = .tlRollback) (he : exec s (.step t) = some s') :
    s'.mem 0 = s.mem 0 - W ∧ W ≤ s.mem 0 ∧ s'.loc t = .done 0 .none :=
  (C22_inv s h hn).rollback hn hl he

/-- **C22.4** no lost wake-up: if a thread is parked (it is then the bit owner draining the
readers, see `C22_parked`) while the word is already exactly `W`, the reader whose decrement made
it `W` is about to issue the wake-all. -/
theorem C22_no_lost_wakeup (s : State proto) (h : Reachable init s)
    (hn : s.threads.length < 2 ^ 30) :
    ∀ u, s.parked u ≠ none → s.mem 0 = W →
      ∃ t, s.loc t = .lsNotify ∨ s.loc t = .tsNotify ∨ s.loc t = .usNotify :=
  fun _ hp hz => (C22_inv s h hn).no_lost_wakeup hp hz

/-- only the bit owner ever parks: inside `wait(W)` on a value different from `W`, on the lock
word, without time-out -/
theorem C22_parked (s : State proto) (h : Reachable init s) (hn : s.threads.length < 2 ^ 30)
    (u : TId) (p : Fld × Bool) (hp : s.parked u = some p) :
    p = (0, false) ∧ ∃ cur, s.loc u = .wWait cur ∧ cur ≠ W := by
  have I := C22_inv s h hn
  obtain ⟨h1, cur, h2⟩ := I.pk u p hp
  exact ⟨h1, cur, h2, I.wfw u cur h2⟩

/-- **C22.5** no deadlock: if every thread is either between calls holding nothing or parked,
then nobody is parked.  Holds in every reachable state; the upgrade contract is not needed (an
upgrader has already subtracted its own reader unit when it starts to wait). -/
theorem C22_no_deadlock (s : State proto) (h : Reachable init s) (hn : s.threads.length < 2 ^ 30)
    (hq : ∀ t, (holdOf (s.loc t) = .none ∧ op (s.loc t) = none) ∨ s.parked t ≠ none) :
    ∀ u, s.parked u = none :=
  (C22_inv s h hn).no_deadlock hq

/-- run-based form of **C22.5** under the documented upgrade contract (the contract is not used) -/
theorem C22_no_deadlock_run (as : List (Act proto)) (_hc : UpgradeContract as) (s : State proto)
    (hr : run init as = some s) (hn : s.threads.length < 2 ^ 30)
    (hq : ∀ t, (holdOf (s.loc t) = .none ∧ op (s.loc t) = none) ∨ s.parked t ≠ none) :
    ∀ u, s.parked u = none :=
  C22_no_deadlock s (reachable_of_run as hr) hn hq

/-! ### non-vacuity: concrete runs, evaluated by the kernel -/

/-- the fields the examples look at: word, local states and parking of threads 0 and 1 -/
structure View where
  word : Int
  loc0 : L
  loc1 : L
  parked0 : Option (Fld × Bool)
  parked1 : Option (Fld × Bool)
  threads : List TId
  deriving DecidableEq, Repr

def view (s : State proto) : View := ⟨s.mem 0, s.loc 0, s.loc 1, s.parked 0, s.parked 1, s.threads⟩

/-- thread 0 takes a read lock; thread 1 calls `lock()`: sets the bit, loads `W + 1`, parks -/
def demoPark : List (Act proto) :=
  [.call 0 .lsAdd, .step 0, .call 1 .lkOr, .step 1, .step 1, .step 1]

example : (run init demoPark).map view =
    some ⟨W + 1, .done 1 .read, .wWait (W + 1), none, some (0, false), [1, 0]⟩ := by decide

/-- … thread 0 calls `unlock_shared()`: its `fetch_sub` returns `W + 1`, the word is now exactly
`W` while the writer is still parked — the premises of `C22_no_lost_wakeup` — and thread 0 is at
`usNotify` -/
def demoNotify : List (Act proto) := demoPark ++ [.call 0 .usSub, .step 0]

example : (run init demoNotify).map view =
    some ⟨W, .usNotify, .wWait (W + 1), none, some (0, false), [1, 0]⟩ := by decide

/-- … the wake-all unparks the writer, which re-loads the word, sees `W` and holds the lock -/
def demoAcquire : List (Act proto) := demoNotify ++ [.wake 0 [1], .step 1]

example : (run init demoAcquire).map view =
    some ⟨W, .done 0 .none, .done 1 .write, none, none, [1, 0]⟩ := by decide

/-- without the wake-all the writer stays parked: the model does not wake threads by magic -/
example : (run init (demoNotify ++ [.step 1])).map view = none := by decide

/-- `try_lock()` against a reader: sets the bit, sees `W + 1` sixteen times, reaches `tlRollback`
(the premise of `C22_failed_try_lock_restores`) … -/
def demoTryFail : List (Act proto) :=
  [.call 0 .lsAdd, .step 0, .call 1 .tlOr, .step 1] ++ List.replicate 16 (.step 1)

example : (run init demoTryFail).map view =
    some ⟨W + 1, .done 1 .read, .tlRollback, none, none, [1, 0]⟩ := by decide

/-- … and clears the bit again, returning `false` -/
example : (run init (demoTryFail ++ [.step 1])).map view =
    some ⟨1, .done 1 .read, .done 0 .none, none, none, [1, 0]⟩ := by decide

/-- a reader arriving while a writer holds the lock increments optimistically (the word is then
`W + 1` although the writer holds the lock: `C22_try_sound` counts it in `optimisticUnits`), backs
out — its `fetch_sub` returns `W + 1`, so it issues a (here unnecessary) wake-all — and
`try_lock_shared` fails -/
example : (run init [.call 0 .tlOr, .step 0, .call 1 .tsAdd, .step 1]).map view =
    some ⟨W + 1, .done 1 .write, .tsRelease, none, none, [1, 0]⟩ := by decide

example : (run init [.call 0 .tlOr, .step 0, .call 1 .tsAdd, .step 1, .step 1]).map view =
    some ⟨W, .done 1 .write, .tsNotify, none, none, [1, 0]⟩ := by decide

example : (run init [.call 0 .tlOr, .step 0, .call 1 .tsAdd, .step 1, .step 1,
      .wake 1 []]).map view =
    some ⟨W, .done 1 .write, .done 0 .none, none, none, [1, 0]⟩ := by decide

/-- upgrade, then downgrade, by a single thread -/
example : (run init [.call 0 .lsAdd, .step 0, .call 0 .upOr, .step 0, .step 0, .step 0,
      .call 0 .dgAdd, .step 0, .step 0]).map view =
    some ⟨1, .done 0 .read, .idle, none, none, [0]⟩ := by decide

/-- Two concurrent upgraders (a violation of `UpgradeContract`): thread 0 wins the bit, drops its
reader unit and parks waiting for thread 1's unit to go away; thread 1 spins in `upOr` for ever
(its `fetch_or` keeps seeing the bit).  Exclusion is not violated, and this is not a deadlock in
the sense of `C22_no_deadlock` since thread 1 is running; it is the reason for the documented
"single upgrader" contract. -/
def demoTwoUpgraders : List (Act proto) :=
  [.call 0 .lsAdd, .step 0, .call 1 .lsAdd, .step 1, .call 0 .upOr, .step 0, .call 1 .upOr,
   .step 1, .step 0, .step 0, .step 0]

theorem C22_two_upgraders_stuck :
    (run init demoTwoUpgraders).map view =
      some ⟨W + 1, .wWait (W + 1), .upOr, some (0, false), none, [1, 0]⟩ ∧
    (run init (demoTwoUpgraders ++ [.step 1])).map view = (run init demoTwoUpgraders).map view ∧
    (run init (demoTwoUpgraders ++ [.spurious 0, .step 0, .step 0])).map view =
      (run init demoTwoUpgraders).map view := by decide

end Dispenso.RWLock
