import DispensoVerif.Proofs.CpuSet
import DispensoVerif.Proofs.CpuSetParse
import DispensoVerif.Proofs.QSortPerm
/-
C43 — `dispenso::CpuSet`, `detail::parseLinuxCpuList`, `detail::buildGroupsFromCacheTopology`.
* Set algebra: `add`/`remove`/`addRange`/`removeRange`/`contains`/`count` behave as the
  mathematical operations on subsets of `[0, setSize)`; ids outside that interval are ignored —
  `C43_add` … `C43_out_of_range` (each operation preserves the representation invariant `WFSet`).
* Parser: for every string of the cpu-list grammar the parser yields exactly the ids the string
  denotes — `C43_parse_grammar`.
* Grouping: thread groups partition the CPUs of the L2 groups, never split an L2 group, respect
  the size bound and never mix two known L3 groups — `C43_groups_*`.
-/
namespace Dispenso.CpuSet
open List

/-! ### set algebra -/

theorem C43_wf_empty : WFSet [] := WFSet.nil

/-- `add(i)`: inserts `i` iff it is a valid id -/
theorem C43_add (s : Set) (h : WFSet s) (i : Int) :
    WFSet (add s i) ∧
    ∀ j : Nat, (j ∈ add s i ↔ j ∈ s ∨ ((j : Int) = i ∧ 0 ≤ i ∧ i < setSize)) := by
  unfold add
  by_cases hi : 0 ≤ i ∧ i < setSize
  · rw [if_pos hi]
    refine ⟨insertSorted_wf h _ (by omega), fun j => ?_⟩
    rw [mem_insertSorted]
    constructor
    · rintro (hj | hj)
      · exact Or.inr ⟨by omega, hi⟩
      · exact Or.inl hj
    · rintro (hj | ⟨hj, _⟩)
      · exact Or.inr hj
      · exact Or.inl (by omega)
  · rw [if_neg hi]
    refine ⟨h, fun j => ⟨Or.inl, ?_⟩⟩
    rintro (hj | ⟨_, hj⟩)
    · exact hj
    · exact absurd hj hi

/-- `remove(i)`: removes exactly `i` -/
theorem C43_remove (s : Set) (h : WFSet s) (i : Int) :
    WFSet (remove s i) ∧ ∀ j : Nat, (j ∈ remove s i ↔ j ∈ s ∧ (j : Int) ≠ i) := by
  unfold remove
  by_cases hi : 0 ≤ i ∧ i < setSize
  · rw [if_pos hi]
    refine ⟨filter_wf h _, fun j => ?_⟩
    rw [mem_filter]
    simp only [ne_eq, decide_eq_true_eq]
    constructor
    · rintro ⟨hj, hne⟩; exact ⟨hj, by omega⟩
    · rintro ⟨hj, hne⟩; exact ⟨hj, by omega⟩
  · rw [if_neg hi]
    refine ⟨h, fun j => ⟨fun hj => ⟨hj, ?_⟩, fun hj => hj.1⟩⟩
    have := h.2 j hj
    omega

/-- `addRange(a, b)`: adds the valid ids of `[a, b)` -/
theorem C43_addRange (s : Set) (h : WFSet s) (a b : Int) :
    WFSet (addRange s a b) ∧
    ∀ j : Nat, (j ∈ addRange s a b ↔ j ∈ s ∨ (a ≤ (j : Int) ∧ (j : Int) < b ∧ j < setSize)) := by
  unfold addRange
  simp only
  constructor
  · apply foldl_insert_wf _ _ _ h
    intro k hk
    rw [mem_range] at hk
    have : (min b (setSize : Int)).toNat ≤ setSize := by omega
    omega
  · intro j
    rw [mem_foldl_insert]
    constructor
    · rintro (hj | ⟨k, hk, rfl⟩)
      · exact Or.inl hj
      · rw [mem_range] at hk
        right
        omega
    · rintro (hj | ⟨h1, h2, h3⟩)
      · exact Or.inl hj
      · right
        refine ⟨j - (max a 0).toNat, ?_, ?_⟩
        · rw [mem_range]; omega
        · omega

/-- `removeRange(a, b)`: removes the ids of `[a, b)` -/
theorem C43_removeRange (s : Set) (h : WFSet s) (a b : Int) :
    WFSet (removeRange s a b) ∧
    ∀ j : Nat, (j ∈ removeRange s a b ↔ j ∈ s ∧ ¬ (a ≤ (j : Int) ∧ (j : Int) < b)) := by
  unfold removeRange
  simp only
  refine ⟨filter_wf h _, fun j => ?_⟩
  rw [mem_filter]
  simp only [decide_eq_true_eq]
  constructor
  · rintro ⟨hj, hn⟩
    have := h.2 j hj
    exact ⟨hj, by omega⟩
  · rintro ⟨hj, hn⟩
    exact ⟨hj, by omega⟩

/-- `contains(i)` -/
theorem C43_contains (s : Set) (i : Int) :
    contains s i = true ↔ 0 ≤ i ∧ i < setSize ∧ i.toNat ∈ s := by
  unfold contains
  simp only [Bool.and_eq_true, decide_eq_true_eq, List.contains_iff_mem]
  constructor
  · rintro ⟨⟨h1, h2⟩, h3⟩; exact ⟨h1, h2, h3⟩
  · rintro ⟨h1, h2, h3⟩; exact ⟨⟨h1, h2⟩, h3⟩

/-- `count()` is the cardinality: the length of a duplicate-free list -/
theorem C43_count (s : Set) (h : WFSet s) : count s = s.length ∧ s.Nodup :=
  ⟨rfl, h.nodup⟩

/-- ids outside `[0, setSize)` are ignored -/
theorem C43_out_of_range (s : Set) (i : Int) (h : i < 0 ∨ (setSize : Int) ≤ i) :
    add s i = s ∧ remove s i = s ∧ contains s i = false := by
  have hi : ¬ (0 ≤ i ∧ i < (setSize : Int)) := by omega
  refine ⟨by unfold add; rw [if_neg hi], by unfold remove; rw [if_neg hi], ?_⟩
  unfold contains
  simp [hi]

/-- a set and its extensional meaning: two well-formed sets with the same members are equal -/
theorem C43_ext (s t : Set) (hs : WFSet s) (ht : WFSet t) (h : ∀ j, j ∈ s ↔ j ∈ t) : s = t := by
  have hp : s.Perm t := (perm_ext_iff_of_nodup hs.nodup ht.nodup).2 h
  exact hp.eq_of_pairwise (le := fun a b => a < b)
    (fun a b _ _ h1 h2 => absurd h1 (Nat.lt_asymm h2)) hs.1 ht.1

/-! ### parser -/

/-- for every string of the cpu-list grammar the parser yields exactly the ids it denotes -/
theorem C43_parse_grammar (items : List Item) (hne : items ≠ [])
    (_hwf : ∀ it ∈ items, match it with | .single _ => True | .range _ _ => True) :
    parseLinuxCpuList (render items) = denote items :=
  parse_grammar items hne

theorem C43_parse_single (n : Nat) : parseLinuxCpuList (natToChars n) = denote [.single n] :=
  parse_single n

theorem C43_parse_range (lo hi : Nat) :
    parseLinuxCpuList (natToChars lo ++ ['-'] ++ natToChars hi) = denote [.range lo hi] :=
  parse_range lo hi

/-- what `denote` means, extensionally: the valid ids of the items whose numbers are reasonable -/
theorem C43_denote_wf (items : List Item) : WFSet (denote items) := by
  unfold denote
  suffices h : ∀ s, WFSet s → WFSet (items.foldl (fun s it => match it with
      | .single n => if (n : Int) ≤ kMaxReasonableCpuId then add s n else s
      | .range lo hi => if (lo : Int) ≤ kMaxReasonableCpuId ∧ (hi : Int) ≤ kMaxReasonableCpuId
          then addRange s lo ((hi : Int) + 1) else s) s) from h [] WFSet.nil
  induction items with
  | nil => intro s hs; exact hs
  | cons it its ih =>
    intro s hs
    rw [foldl_cons]
    apply ih
    cases it with
    | single n =>
      simp only
      split
      · exact (C43_add s hs n).1
      · exact hs
    | range lo hi =>
      simp only
      split
      · exact (C43_addRange s hs lo _).1
      · exact hs

theorem C43_parse_wf (items : List Item) (hne : items ≠ []) :
    WFSet (parseLinuxCpuList (render items)) := by
  rw [parse_grammar items hne]; exact C43_denote_wf items

/-! ### grouping -/

/-- `sortInts` (`Array.qsort`) returns a permutation of its input -/
theorem C43_sortInts_perm (l : List Int) : (sortInts l).Perm l := sortInts_perm l

/-- the structure of the result: the non-empty L2 atoms, in order, are cut into consecutive runs;
each thread group is the sorted concatenation of one run. -/
theorem C43_groups_structure (l2 l3 : List (List Int)) (m : Int) :
    ∃ G : List (List (List Int)),
      buildGroups l2 l3 m = G.map (fun atoms => sortInts atoms.flatten) ∧
      G.flatten = l2.filter (fun x => !x.isEmpty) ∧
      ∀ atoms ∈ G, atoms ≠ [] ∧ GroupOK l3 (max m (largestGroupSize l2)) atoms :=
  ⟨groupsA l2 l3 m, buildGroups_structure l2 l3 m⟩

/-- every CPU of an L2 group appears in the thread groups exactly as often as in the L2 groups
(empty atoms contribute nothing) -/
theorem C43_groups_partition (l2 l3 : List (List Int)) (m : Int) :
    (buildGroups l2 l3 m).flatten.Perm l2.flatten := by
  obtain ⟨h1, h2, _⟩ := buildGroups_structure l2 l3 m
  rw [h1]
  have hp : ((groupsA l2 l3 m).map (fun G => sortInts G.flatten)).flatten.Perm
      ((groupsA l2 l3 m).map (fun G => G.flatten)).flatten :=
    flatten_map_perm _ _ _ (fun G _ => sortInts_perm G.flatten)
  refine hp.trans ?_
  have : ((groupsA l2 l3 m).map (fun G => G.flatten)).flatten = l2.flatten := by
    rw [← flatten_filter_nonempty l2, ← h2, flatten_flatten]
  rw [this]

/-- with pairwise disjoint, duplicate-free L2 groups every CPU is in exactly one thread group, once -/
theorem C43_groups_nodup (l2 l3 : List (List Int)) (m : Int)
    (hnd : ∀ a ∈ l2, a.Nodup) (hdisj : l2.Pairwise (fun a b => ∀ c ∈ a, c ∉ b)) :
    (buildGroups l2 l3 m).flatten.Nodup ∧
    (buildGroups l2 l3 m).Pairwise (fun g h => ∀ c ∈ g, c ∉ h) ∧
    ∀ g ∈ buildGroups l2 l3 m, g.Nodup := by
  have hflat : l2.flatten.Nodup := by
    rw [Nodup, pairwise_flatten]
    exact ⟨hnd, hdisj.imp (fun h c hc d hd => fun e : c = d => h c hc (e ▸ hd))⟩
  have h := (C43_groups_partition l2 l3 m).nodup_iff.2 hflat
  refine ⟨h, ?_, ?_⟩
  · rw [Nodup, pairwise_flatten] at h
    exact h.2.imp (fun h c hc hd => h c hc c hd rfl)
  · rw [Nodup, pairwise_flatten] at h
    exact h.1

/-- every non-empty L2 group is contained in a single thread group -/
theorem C43_groups_keep_l2 (l2 l3 : List (List Int)) (m : Int) :
    ∀ a ∈ l2, a ≠ [] → ∃ g ∈ buildGroups l2 l3 m, ∀ c ∈ a, c ∈ g := by
  intro a ha hne
  obtain ⟨h1, h2, _⟩ := buildGroups_structure l2 l3 m
  have hmem : a ∈ (groupsA l2 l3 m).flatten := by
    rw [h2, mem_filter]
    refine ⟨ha, ?_⟩
    cases a with
    | nil => exact absurd rfl hne
    | cons _ _ => rfl
  obtain ⟨G, hG, haG⟩ := mem_flatten.1 hmem
  refine ⟨sortInts G.flatten, ?_, ?_⟩
  · rw [h1]; exact mem_map.2 ⟨G, hG, rfl⟩
  · intro c hc
    exact (sortInts_perm _).mem_iff.2 (mem_flatten.2 ⟨a, haG, hc⟩)

/-- every thread group has at most `max maxGroupSize (largest L2 group)` CPUs, and is not empty -/
theorem C43_groups_size (l2 l3 : List (List Int)) (m : Int) :
    ∀ g ∈ buildGroups l2 l3 m, (g.length : Int) ≤ max m (largestGroupSize l2) ∧ g ≠ [] := by
  intro g hg
  obtain ⟨h1, _, h3⟩ := buildGroups_structure l2 l3 m
  rw [h1] at hg
  obtain ⟨G, hG, rfl⟩ := mem_map.1 hg
  obtain ⟨hGne, hok⟩ := h3 G hG
  have hlen := (sortInts_perm G.flatten).length_eq
  refine ⟨by rw [hlen]; exact hok.size, ?_⟩
  intro h0
  have : G.flatten = [] := by
    have := congrArg length h0
    rw [hlen] at this
    exact length_eq_zero_iff.1 this
  exact hGne ((flatten_eq_nil_of_ne hok.ne).1 this)

/-- a thread group never mixes two distinct known L3 groups (an L2 group's L3 is that of its first
CPU, as in the code): if the first CPUs of two L2 groups lie in the same thread group and both
have a known L3, these are equal -/
theorem C43_groups_single_l3 (l2 l3 : List (List Int)) (m : Int)
    (hdisj : l2.Pairwise (fun a b => ∀ c ∈ a, c ∉ b)) :
    ∀ g ∈ buildGroups l2 l3 m, ∀ a ∈ l2, ∀ b ∈ l2, ∀ ca cb : Int,
      a.head? = some ca → b.head? = some cb → ca ∈ g → cb ∈ g →
      0 ≤ l3Of l3 ca → 0 ≤ l3Of l3 cb → l3Of l3 ca = l3Of l3 cb := by
  intro g hg a ha b hb ca cb hca hcb hcag hcbg h0a h0b
  obtain ⟨h1, h2, h3⟩ := buildGroups_structure l2 l3 m
  rw [h1] at hg
  obtain ⟨G, hG, rfl⟩ := mem_map.1 hg
  obtain ⟨_, hok⟩ := h3 G hG
  -- an L2 group whose first CPU lies in the thread group is one of the atoms of that group
  have key : ∀ x ∈ l2, ∀ cx : Int, x.head? = some cx → cx ∈ sortInts G.flatten → x ∈ G := by
    intro x hx cx hcx hcxg
    have hcxx : cx ∈ x := by
      cases x with
      | nil => cases hcx
      | cons y ys => simp only [head?_cons, Option.some.injEq] at hcx; subst hcx; exact mem_cons_self
    obtain ⟨x', hx'G, hcx'⟩ := mem_flatten.1 ((sortInts_perm _).mem_iff.1 hcxg)
    have hx'l2 : x' ∈ l2 := by
      have : x' ∈ (groupsA l2 l3 m).flatten := mem_flatten.2 ⟨G, hG, hx'G⟩
      rw [h2] at this
      exact (mem_filter.1 this).1
    rcases pairwise_mem_or (R := fun a b : List Int => ∀ c ∈ a, c ∉ b)
      (fun a b h c hc hd => h c hd hc) hdisj hx hx'l2 with h | h
    · rw [h]; exact hx'G
    · exact absurd hcx' (h cx hcxx)
  have haG := key a ha ca hca hcag
  have hbG := key b hb cb hcb hcbg
  have ea : atomL3 l3 a = l3Of l3 ca := by
    cases a with
    | nil => cases hca
    | cons y ys => simp only [head?_cons, Option.some.injEq] at hca; subst hca; rfl
  have eb : atomL3 l3 b = l3Of l3 cb := by
    cases b with
    | nil => cases hcb
    | cons y ys => simp only [head?_cons, Option.some.injEq] at hcb; subst hcb; rfl
  have := hok.l3one a haG b hbG (by rw [ea]; exact h0a) (by rw [eb]; exact h0b)
  rw [ea, eb] at this
  exact this

/-! ### non-vacuity -/
example : add (add [] 5) 3 = [3, 5] := by decide
example : add [3, 5] 1024 = [3, 5] := by decide
example : addRange [2] (-3) 4 = [0, 1, 2, 3] := by decide
example : removeRange [0, 1, 2, 3, 9] 1 3 = [0, 3, 9] := by decide
example : contains [3, 5] 5 = true ∧ contains [3, 5] (-1) = false := by decide
example : WFSet [3, 5] := ⟨by decide, by decide⟩
example : denote [.range 1022 1030, .single 7] = [7, 1022, 1023] := by decide
example : (groupsA [[0, 1], [], [2, 3], [4, 5]] [[0, 1, 2, 3], [4, 5]] 4) =
    [[[0, 1], [2, 3]], [[4, 5]]] := by decide
example : l3Of [[0, 1, 2, 3], [4, 5]] 4 = 1 := by decide

end Dispenso.CpuSet
