import DispensoVerif.Proofs.Nested
import DispensoVerif.Proofs.NestedCex
import DispensoVerif.Proofs.NestedTerm
/-! C06: nested waits never deadlock through pool starvation.

The full statement ("every acyclic program of task-set / future waits terminates, for any pool size and
any interleaving") is FALSE of the implementation's design; the two `…_counterexample` theorems exhibit
acyclic programs with a reachable state of the model in which tasks are unfinished and no thread can
take a step (both are reproduced on the real code by the harness and recorded as a known finding).
What is proved is the fork-join fragment (`C06_forkjoin_partial`): if every wait is on a set whose
members the waiting task scheduled itself, no reachable state is stuck, for any number of workers and
external threads and any interleaving, provided every tier is either polled by helping waiters or is
only filled under the claim protocol (a worker that polls the tier and had an empty stack was claimed
first) — which is how the unchanged code treats its tiers (`C06_forkjoin_current_code`).  Missing for
the full property: programs with waits on sets scheduled by other tasks (false, see above), and
liveness beyond "some step is enabled" (that an enabled thread is eventually scheduled and that a
claimed worker really wakes up is outside this model; wake-ups are C07/C09). -/
namespace Dispenso.Nested

/-- C06, fork-join fragment.  For every configuration whose tiers are all covered (`TiersCovered`: polled
    by helping waiters, or claim-protected), every program in fork-join discipline (`ForkJoin`), any
    number of pool workers (including zero) and external threads, and every interleaving: no reachable
    state is `Stuck` — whenever some task is scheduled or running and unfinished, some thread can take a
    step other than spinning.  The hypothesis about woken workers is the model's `decide` guard: a task
    enters a claim-protected tier only after a worker that polls this tier was claimed while its stack
    was empty; no fairness assumption is used. -/
theorem C06_forkjoin_partial (cfg : Cfg) (p : Prog) (hfj : ForkJoin p) (hcov : TiersCovered cfg)
    (s : St) (hr : Reachable cfg p s) : ¬ Stuck cfg s := by
  intro ⟨⟨c, hc⟩, hno⟩
  obtain ⟨e, he⟩ := unfinished_enabled hfj hcov hr hc
  rw [hno e] at he
  cases he

/-- the tiers of the unchanged code are covered: central queue and rings are drained by waiters, steal
    rings are claim-protected -/
theorem tiersCovered_code (n : Nat) : TiersCovered (cfgCode n) := by
  intro T; cases T <;> simp [cfgCode]

/-- C06 for fork-join programs on the may-poll relation of the unchanged code, any pool size. -/
theorem C06_forkjoin_current_code (n : Nat) (p : Prog) (hfj : ForkJoin p) (s : St)
    (hr : Reachable (cfgCode n) p s) : ¬ Stuck (cfgCode n) s :=
  C06_forkjoin_partial (cfgCode n) p hfj (tiersCovered_code n) s hr

/-- C06, fork-join fragment, termination.  For a closed fork-join program (all task ids below the number
    of scripts) and covered tiers: (1) every execution of the model — every sequence of steps other than
    spinning, under any interleaving — has at most `measure … (init …)` steps (each step strictly
    decreases a natural-number measure: 2 per remaining script action, 3/2/1/0 per task by status, 1 per
    pending claim); (2) an execution can only end (no step enabled) in a state in which no task is
    scheduled-or-running and unfinished.  Hence the program terminates with every scheduled task
    finished as soon as no thread that has an enabled step is delayed for ever.  `_partial`: fork-join
    programs only, and the last proviso (scheduler fairness, the claimed worker actually waking up) is
    not part of the model. -/
theorem C06_forkjoin_terminates_partial (cfg : Cfg) (p : Prog) (hfj : ForkJoin p) (hcl : Closed p)
    (hcov : TiersCovered cfg) :
    (∀ evs s', runEvents cfg (init cfg p) evs = some s' →
        evs.length ≤ measure p.scripts.length (init cfg p)) ∧
    (∀ evs s', runEvents cfg (init cfg p) evs = some s' → (∀ e, step? cfg s' e = none) →
        ∀ c, ¬ s'.Unfinished c) := by
  refine ⟨?_, ?_⟩
  · intro evs s' h
    have := run_length_bound hfj hcl evs (init cfg p) s' Reachable.init h
    omega
  · intro evs s' h hno c hc
    exact C06_forkjoin_partial cfg p hfj hcov s' (reachable_of_run evs _ _ Reachable.init h) ⟨⟨c, hc⟩, hno⟩

/-- Negative witness (i): the helping wait buries the awaited task.  An acyclic program and a reachable
    stuck state, in a configuration in which every actor polls every tier. -/
theorem C06_buried_counterexample :
    ∃ p : Prog, Acyclic p ∧ ∃ s, Reachable (cfgAll 1) p s ∧ Stuck (cfgAll 1) s := by
  refine ⟨progBuried, buried_acyclic, ?_⟩
  obtain ⟨s, hs⟩ := Option.isSome_iff_exists.mp buried_runs
  exact ⟨s, reachable_of_run _ _ _ Reachable.init hs, buried_stuck s hs⟩

/-- Negative witness (ii): helping waiters do not poll the steal rings.  An acyclic program and a
    reachable stuck state under the may-poll relation of the unchanged code. -/
theorem C06_steal_ring_counterexample :
    ∃ p : Prog, Acyclic p ∧ ∃ s, Reachable (cfgCode 1) p s ∧ Stuck (cfgCode 1) s := by
  refine ⟨progSteal, steal_acyclic, ?_⟩
  obtain ⟨s, hs⟩ := Option.isSome_iff_exists.mp steal_runs
  exact ⟨s, reachable_of_run _ _ _ Reachable.init hs, steal_stuck s hs⟩

/-! Non-vacuity: a fork-join program with two levels of nesting and a future-style wait satisfies the
    hypotheses, and the model runs it through the claim / steal-ring path of the unchanged code. -/
def progExample : Prog where
  scripts := [[.spawn 1 1, .spawn 2 1, .wait 1 true], [.spawn 3 2, .wait 2 false], [], []]
  roots := [0]

example : ForkJoin progExample := forkJoin_of_check (by decide)
example : Closed progExample := closed_of_check (by decide)
example : measure progExample.scripts.length (init (cfgCode 1) progExample) = 20 := by decide
example : Acyclic progExample := acyclic_of_check (fun t => match t with | 0 => 2 | 1 => 1 | _ => 0) (by decide)
example : (runEvents (cfgCode 1) (init (cfgCode 1) progExample)
    [.decide 1 1 1 (.steal 0) 0, .push 1 (.steal 0), .decide 1 2 1 .central 0, .take 0 1 (.steal 0),
     .decide 0 3 2 .central 0, .take 1 3 .central, .finish 1, .take 1 2 .central, .finish 1,
     .waitRet 0, .finish 0, .waitRet 1, .finish 1]).isSome = true := by decide
-- the buried / steal-ring programs are not in fork-join discipline
example : forkJoinCheck progBuried = false := by decide
example : forkJoinCheck progSteal = false := by decide

end Dispenso.Nested
