import DispensoVerif.Proofs.Bits

/-!
# C44 — bit-math helpers compute what their names say

`nextPow2` returns the least power of two ≥ v (for 1 ≤ v ≤ 2^63), `log2const` (64- and 32-bit) is
the floor base-2 logarithm for every non-zero input, `alignToCacheLine` rounds up to the next
multiple of 64, and the `alignedMalloc` address arithmetic yields an aligned address with room for
the 8-byte recovery word inside the allocation.  All theorems hold for every input in the stated
domain (no bound on sizes beyond the machine word), and are fully kernel-checked.
-/
namespace Dispenso.Bits

/-- **C44.a** `nextPow2 v` is the least power of two `≥ v`, for `1 ≤ v ≤ 2^63`. -/
theorem C44_nextPow2 (v : BitVec 64) (h1 : 1 ≤ v.toNat) (h2 : v.toNat ≤ 2 ^ 63) :
    ∃ k : Nat, (nextPow2 v).toNat = 2 ^ k ∧ v.toNat ≤ 2 ^ k ∧
      (∀ j : Nat, v.toNat ≤ 2 ^ j → 2 ^ k ≤ 2 ^ j) :=
  nextPow2_spec v h1 h2

/-- **C44.b** 64-bit `log2const` is `⌊log₂ v⌋` for every non-zero `v`. -/
theorem C44_log2const64 (v : BitVec 64) (hv : v ≠ 0) :
    (log2const64 v).toNat = Nat.log2 v.toNat :=
  log2const64_spec v hv

/-- **C44.c** 32-bit `log2const` is `⌊log₂ v⌋` for every non-zero `v`. -/
theorem C44_log2const32 (v : BitVec 32) (hv : v ≠ 0) :
    (log2const32 v).toNat = Nat.log2 v.toNat :=
  log2const32_spec v hv

/-- **C44.d** `alignToCacheLine` rounds up to the next multiple of 64 (when `val + 63` does not
wrap). -/
theorem C44_alignToCacheLine (val : BitVec 64) (h : val.toNat + 63 < 2 ^ 64) :
    (alignToCacheLine val).toNat % 64 = 0 ∧ val.toNat ≤ (alignToCacheLine val).toNat ∧
      (alignToCacheLine val).toNat < val.toNat + 64 :=
  alignToCacheLine_spec val h

/-- **C44.e** `alignedMalloc` address arithmetic: for a power-of-two alignment `≤ 2^16` and a
16-byte-aligned `malloc` result, the returned address is aligned, lies in
`[base + 8, base + max alignment 8]` (so `bytes` bytes fit in the allocation of
`bytes + max alignment 8`), and the recovery word at `result - 8` lies inside the allocation. -/
theorem C44_alignedMalloc (base alignment : BitVec 64) (k : Nat)
    (hk : alignment.toNat = 2 ^ k) (hk16 : k ≤ 16) (hb : base.toNat % 16 = 0)
    (hbase : base.toNat + 2 ^ 17 < 2 ^ 64) :
    let a := max alignment.toNat 8
    let r := alignedMallocAddr base alignment
    r.1.toNat % alignment.toNat = 0 ∧ base.toNat + 8 ≤ r.1.toNat ∧ r.1.toNat ≤ base.toNat + a ∧
      r.2.toNat = r.1.toNat - 8 ∧ base.toNat ≤ r.2.toNat :=
  alignedMalloc_spec base alignment k hk hk16 hb hbase

/-! Concrete instances (kernel evaluation). -/

example : nextPow2 1 = 1 := by decide
example : nextPow2 5 = 8 := by decide
example : nextPow2 8 = 8 := by decide
example : nextPow2 1000 = 1024 := by decide
example : nextPow2 (BitVec.ofNat 64 (2 ^ 63)) = BitVec.ofNat 64 (2 ^ 63) := by decide
example : nextPow2 (BitVec.ofNat 64 (2 ^ 62 + 1)) = BitVec.ofNat 64 (2 ^ 63) := by decide
example : log2const64 1 = 0 := by decide
example : log2const64 1000 = 9 := by decide
example : log2const64 (BitVec.ofNat 64 (2 ^ 63)) = 63 := by decide
example : log2const64 (BitVec.ofNat 64 (2 ^ 64 - 1)) = 63 := by decide
example : log2const32 1000 = 9 := by decide
example : log2const32 (BitVec.ofNat 32 (2 ^ 32 - 1)) = 31 := by decide
example : alignToCacheLine 1 = 64 := by decide
example : alignToCacheLine 64 = 64 := by decide
example : alignToCacheLine 65 = 128 := by decide
example : alignedMallocAddr 0x1000 64 = (0x1040, 0x1038) := by decide
example : alignedMallocAddr 0x1010 1 = (0x1018, 0x1010) := by decide
example : alignedMallocAddr 0x1010 4096 = (0x2000, 0x1ff8) := by decide

end Dispenso.Bits
