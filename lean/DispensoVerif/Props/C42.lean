import DispensoVerif.Proofs.PoolAlloc
/-
C42 — `dispenso::PoolAllocatorT<kThreadSafe>`: a slab allocator handing out fixed-size chunks.
For every `chunksPerAlloc = k ≥ 1` and every sequence of `alloc` / `dealloc` / `clear` /
destruction operations starting from the empty allocator:
* every chunk (free or handed out) lies inside a slab obtained from `allocFunc` that is still
  active, at an index `< k`; slab ids are distinct, and are exactly the `allocFunc` calls —
  `C42_chunks_valid`;
* no chunk is simultaneously free and handed out, none is handed out twice — `C42_exclusive`,
  `C42_alloc_fresh`;
* `clear()` keeps all slabs for reuse and `alloc` consumes them before calling `allocFunc` again —
  `C42_clear_reuses`, `C42_alloc_prefers_reuse`;
* destruction releases every slab exactly once — `C42_destroy_releases`, `C42_ledger`,
  `C42_balance`;
* the spin lock of the thread-safe variant is a mutual-exclusion lock, for any number of threads
  and any interleaving — `C42_lock_mutex`.
-/
namespace Dispenso.PoolAlloc
open Dispenso.PoolAlloc.Seq Dispenso.Conc

/-- every state reachable from the empty allocator satisfies the invariant -/
theorem C42_inv (k : Nat) (hk : 1 ≤ k) (ops : List Op) : Inv (runOps (St.init k) ops) :=
  (Inv.init k hk).runOps ops

/-- **C42.1** chunks lie within active slabs obtained from `allocFunc`; slab ids are distinct and
are exactly the `allocFunc` calls made so far. -/
theorem C42_chunks_valid (k : Nat) (hk : 1 ≤ k) (ops : List Op) :
    let s := runOps (St.init k) ops
    (∀ c ∈ s.free ++ s.out, c.1 ∈ s.active ∧ c.2 < k) ∧
    (s.active ++ s.reuse).Nodup ∧ (∀ x ∈ s.active ++ s.reuse, x < s.nextSlab) ∧
    s.nextSlab = s.allocCalls := by
  intro s
  have I : Inv s := C42_inv k hk ops
  have hk' : s.k = k := runOps_k (St.init k) ops
  refine ⟨fun c hc => ?_, I.slabsNodup, I.slabsLt, I.next⟩
  have := I.chunks c hc
  rw [hk'] at this
  exact this

/-- **C42.2** no chunk is simultaneously free and handed out, and none is handed out twice. -/
theorem C42_exclusive (k : Nat) (hk : 1 ≤ k) (ops : List Op) :
    ((runOps (St.init k) ops).free ++ (runOps (St.init k) ops).out).Nodup :=
  (C42_inv k hk ops).excl

/-- **C42.2'** a successful `alloc` returns a chunk that was not handed out before (and now is),
in any state satisfying the invariant. -/
theorem C42_alloc_fresh_inv (s s' : St) (r : Out) (I : Inv s) (h : step s .alloc = (s', some r)) :
    0 ≤ r.slab ∧ 0 ≤ r.idx ∧ (r.slab.toNat, r.idx.toNat) ∉ s.out ∧
      (r.slab.toNat, r.idx.toNat) ∈ s'.out := by
  have hk : s.k ≠ 0 := by have := I.kpos; omega
  have hnd := I.excl
  rcases List.eq_nil_or_concat s.free with hf | ⟨f, c, hf⟩
  · -- a slab is taken: its chunks were not in `out`, whose chunks lie in `active`
    have key : ∀ slab : Nat, slab ∉ s.active → (slab, s.k - 1) ∉ s.out := fun slab hs hc =>
      hs (I.chunks _ (List.mem_append_right _ hc)).1
    rcases List.eq_nil_or_concat s.reuse with hr | ⟨rs, rr, hr⟩
    · rw [step_alloc_new s hk hf hr] at h
      simp only [mkOut, Prod.mk.injEq, Option.some.injEq] at h
      obtain ⟨rfl, rfl⟩ := h
      have hfresh : s.nextSlab ∉ s.active := fun hm =>
        Nat.lt_irrefl _ (I.slabsLt _ (List.mem_append_left _ hm))
      refine ⟨by simp, by simp, ?_, ?_⟩
      · simpa using key _ hfresh
      · simp [takeSlab]
    · rw [List.concat_eq_append] at hr
      rw [step_alloc_reuse s hk hf rs rr hr] at h
      simp only [mkOut, Prod.mk.injEq, Option.some.injEq] at h
      obtain ⟨rfl, rfl⟩ := h
      have hfresh : rr ∉ s.active := by
        intro hm
        have := I.slabsNodup
        rw [hr, List.nodup_append] at this
        exact this.2.2 rr hm rr (by simp) rfl
      refine ⟨by simp, by simp, ?_, ?_⟩
      · simpa using key _ hfresh
      · simp [takeSlab]
  · rw [List.concat_eq_append] at hf
    rw [step_alloc_free s hk f c hf] at h
    simp only [mkOut, Prod.mk.injEq, Option.some.injEq] at h
    obtain ⟨rfl, rfl⟩ := h
    rw [hf, List.nodup_append] at hnd
    refine ⟨by simp, by simp, ?_, ?_⟩
    · intro hc
      simp only [Int.toNat_natCast] at hc
      exact hnd.2.2 c (by simp) c hc rfl
    · simp

/-- **C42.2'** for reachable states -/
theorem C42_alloc_fresh (k : Nat) (hk : 1 ≤ k) (ops : List Op) (s' : St) (r : Out)
    (h : step (runOps (St.init k) ops) .alloc = (s', some r)) :
    0 ≤ r.slab ∧ 0 ≤ r.idx ∧ (r.slab.toNat, r.idx.toNat) ∉ (runOps (St.init k) ops).out ∧
      (r.slab.toNat, r.idx.toNat) ∈ s'.out :=
  C42_alloc_fresh_inv _ s' r (C42_inv k hk ops) h

/-- with `k ≥ 1`, `alloc` always succeeds -/
theorem C42_alloc_succeeds (s : St) (hk : 1 ≤ s.k) : ∃ r, (step s .alloc).2 = some r := by
  have hk' : s.k ≠ 0 := by omega
  rcases List.eq_nil_or_concat s.free with hf | ⟨f, c, hf⟩
  · rcases List.eq_nil_or_concat s.reuse with hr | ⟨rs, rr, hr⟩
    · rw [step_alloc_new s hk' hf hr]; exact ⟨_, rfl⟩
    · rw [List.concat_eq_append] at hr; rw [step_alloc_reuse s hk' hf rs rr hr]; exact ⟨_, rfl⟩
  · rw [List.concat_eq_append] at hf; rw [step_alloc_free s hk' f c hf]; exact ⟨_, rfl⟩

/-- **C42.3** `clear()` empties the chunk lists and keeps every slab for reuse. -/
theorem C42_clear_reuses (s : St) :
    let s' := (step s .clear).1
    s'.active = [] ∧ s'.free = [] ∧ s'.out = [] ∧ s'.reuse.Perm (s.active ++ s.reuse) ∧
    s'.allocCalls = s.allocCalls ∧ s'.deallocCalls = s.deallocCalls := by
  intro s'
  have hs : s' = _ := step_clear s
  rw [hs]
  exact ⟨rfl, rfl, rfl, clearReuse_perm s, rfl, rfl⟩

/-- **C42.3'** slabs kept for reuse are consumed before `allocFunc` is called again. -/
theorem C42_alloc_prefers_reuse (s : St) (_hf : s.free = []) (hr : s.reuse ≠ []) :
    (step s .alloc).1.allocCalls = s.allocCalls := by
  by_cases hk : s.k = 0
  · rw [step_alloc_k0 s hk]
  · rcases List.eq_nil_or_concat s.free with hf | ⟨f, c, hf⟩
    · rcases List.eq_nil_or_concat s.reuse with hr' | ⟨rs, rr, hr'⟩
      · exact absurd hr' hr
      · rw [List.concat_eq_append] at hr'; rw [step_alloc_reuse s hk hf rs rr hr']; rfl
    · rw [List.concat_eq_append] at hf; rw [step_alloc_free s hk f c hf]

/-- `allocFunc` is called by `alloc` only when neither a free chunk nor a reusable slab exists -/
theorem C42_alloc_calls_allocFunc (s : St) (h : (step s .alloc).1.allocCalls ≠ s.allocCalls) :
    s.free = [] ∧ s.reuse = [] ∧ (step s .alloc).1.allocCalls = s.allocCalls + 1 := by
  by_cases hk : s.k = 0
  · rw [step_alloc_k0 s hk] at h; exact absurd rfl h
  · rcases List.eq_nil_or_concat s.free with hf | ⟨f, c, hf⟩
    · rcases List.eq_nil_or_concat s.reuse with hr' | ⟨rs, rr, hr'⟩
      · rw [step_alloc_new s hk hf hr']; exact ⟨hf, hr', rfl⟩
      · rw [List.concat_eq_append] at hr'
        rw [step_alloc_reuse s hk hf rs rr hr'] at h; exact absurd rfl h
    · rw [List.concat_eq_append] at hf
      rw [step_alloc_free s hk f c hf] at h; exact absurd rfl h

/-- **C42.4** destruction calls `deallocFunc` once per slab held (active or kept for reuse). -/
theorem C42_destroy_releases (s : St) :
    let s' := (step s .destroy).1
    s'.deallocCalls = s.deallocCalls + (s.active.length + s.reuse.length) ∧
    s'.active = [] ∧ s'.reuse = [] ∧ s'.free = [] ∧ s'.out = [] ∧ s'.allocCalls = s.allocCalls := by
  intro s'
  have hs : s' = _ := step_destroy s
  rw [hs]
  exact ⟨by simp only; omega, rfl, rfl, rfl, rfl, rfl⟩

/-- **C42.4'** the slabs currently held are exactly those obtained and not yet released. -/
theorem C42_ledger (k : Nat) (hk : 1 ≤ k) (ops : List Op) :
    let s := runOps (St.init k) ops
    s.allocCalls = s.deallocCalls + (s.active ++ s.reuse).length ∧ (s.active ++ s.reuse).Nodup := by
  intro s
  have I : Inv s := C42_inv k hk ops
  refine ⟨?_, I.slabsNodup⟩
  have := I.ledger
  rw [List.length_append]
  omega

/-- nothing is released before the destructor runs -/
theorem C42_no_release_before_destroy (k : Nat) (ops : List Op)
    (hnd : ∀ o ∈ ops, isDestroy o = false) : (runOps (St.init k) ops).deallocCalls = 0 :=
  runOps_deallocCalls (St.init k) ops hnd

/-- **C42.4''** after destruction every slab obtained from `allocFunc` has been released, whatever
happened before (earlier destructions included: each empties the slab lists). -/
theorem C42_balance_any (k : Nat) (hk : 1 ≤ k) (ops : List Op) :
    let s := runOps (St.init k) (ops ++ [.destroy])
    s.deallocCalls = s.allocCalls := by
  intro s
  have I : Inv s := C42_inv k hk _
  have hs : s = (step (runOps (St.init k) ops) .destroy).1 := by
    show runOps (St.init k) (ops ++ [.destroy]) = _
    rw [runOps_append]; rfl
  have h := I.ledger
  have h1 : s.active = [] := by rw [hs]; rfl
  have h2 : s.reuse = [] := by rw [hs]; rfl
  rw [h1, h2] at h
  simp only [List.length_nil] at h
  omega

/-- **C42.4''** (as stated: no earlier destruction) every slab is released exactly once:
nothing has been released before the destructor runs, and afterwards the number of `deallocFunc`
calls equals the number of `allocFunc` calls (whose results are pairwise distinct slabs). -/
theorem C42_balance (k : Nat) (hk : 1 ≤ k) (ops : List Op)
    (hnd : ∀ o ∈ ops, isDestroy o = false) :
    let s := runOps (St.init k) (ops ++ [.destroy])
    (runOps (St.init k) ops).deallocCalls = 0 ∧ s.deallocCalls = s.allocCalls :=
  ⟨C42_no_release_before_destroy k ops hnd, C42_balance_any k hk ops⟩

/-- **C42.5** the spin lock: at most one thread is inside a critical section, the lock word is 1
exactly when some thread is, and it is never anything but 0 or 1 — for every reachable state of
any number of threads under any interleaving. -/
theorem C42_lock_mutex (s : State proto) (h : Reachable init s) :
    (∀ t u, inCritical (s.loc t) = true → inCritical (s.loc u) = true → t = u) ∧
    (s.mem 0 = 1 ↔ ∃ t, inCritical (s.loc t) = true) ∧
    (s.mem 0 = 0 ∨ s.mem 0 = 1) := by
  have I := linv_reachable h
  refine ⟨I.uniq, ⟨I.owner, fun ⟨t, ht⟩ => I.held t ht⟩, I.rng⟩

/-- no thread of the lock protocol is ever parked (the lock spins) -/
theorem C42_lock_no_park (s : State proto) (h : Reachable init s) (t : TId) : s.parked t = none :=
  (linv_reachable h).np t

/-! ### non-vacuity -/
example : (runOps (St.init 3) [.alloc, .alloc, .dealloc 0 2, .alloc]).out = [(0, 1), (0, 2)] := by
  decide
example : (runOps (St.init 2) [.alloc, .alloc, .alloc, .clear, .alloc]).allocCalls = 2 := by decide
example : (runOps (St.init 2) [.alloc, .alloc, .alloc, .clear, .alloc]).reuse = [0] := by decide
example : (runOps (St.init 2) [.alloc, .alloc, .alloc, .clear, .alloc, .destroy]).deallocCalls = 2 := by
  decide
example : ∃ s, run init [.call 0 .aLock, .call 1 .dLock, .step 0, .step 1] = some s ∧
    inCritical (s.loc 0) = true ∧ inCritical (s.loc 1) = false ∧ s.mem 0 = 1 :=
  ⟨_, rfl, by decide, by decide, by decide⟩

end Dispenso.PoolAlloc
