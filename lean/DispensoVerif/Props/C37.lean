import DispensoVerif.Proofs.Arena
import DispensoVerif.Proofs.ArenaTables
/-
C37 — `dispenso::ConcurrentObjectArena<T>`: a grow-only segmented array (a table of buffers of
`kBufferSize = B` elements each) whose `grow_by(d)` may be called concurrently.

Sequential layer (the arena as a value, and a pool of arenas under construction, copy, move,
assignment, swap and destruction):
* `grow_by(delta)` returns the old size, the size grows by `delta`, the new elements are
  default-constructed, the old ones untouched, and the arena invariant `AInv` is preserved — the
  allocation loop terminates within the fuel of the model — `C37_seq_growBy`;
* under `AInv` every index below the size lies in an allocated buffer — `C37_seq_index_in_buffer`;
* the constructor establishes `AInv`; `kBufferSize` is a power of two `≥ minBuffSize` — `C37_seq_mk`;
* copy/move construction, copy/move assignment, swap, `grow_by`, element assignment have the value
  semantics of a container — `C37_sem_*`, `C37_sem_frame`;
* every element buffer allocated is freed exactly once — `C37_buffers_ledger`, `C37_all_destroyed`;
* every arena of a reachable pool satisfies `AInv` or is a moved-from shell — `C37_pool_inv`.

Concurrent layer (`proto B`, any `B ≥ 1`, any number of threads, any interleaving, from the state
`init B` right after construction):
* `C37_conc_inv`: `0 ≤ pos < allocated ≤ B * buffersPos ≤ B * buffersSize`, with
  `allocated = B * buffersPos` except in the window where the lock holder has already entered the new
  buffer into the table and not yet published the new allocated size (then `allocated + B = B *
  buffersPos`: the buffer exists *before* `allocated`, hence before `pos`, can pass it); the resize
  section is mutually exclusive and the mutex word is 1 exactly while a thread is inside;
* `C37_ranges_tile`: the successful position claims of any history, in history order, tile
  `[0, size())`: concurrent `grow_by` calls obtain pairwise disjoint ranges whose union is the whole
  index range (`C37_ranges_cover_once`: every index is claimed exactly once);
* `C37_grow_returns_claim`: the value a call returns is the `old` of its successful CAS.
-/
namespace Dispenso.Arena
open Dispenso.Conc

/-! ## sequential layer -/
section SeqLayer
open Dispenso.Arena.Seq

/-- `grow_by(delta)`: returns the old size; the size grows by `delta`; the old elements are
    untouched and `delta` default-constructed elements are appended; the invariant is preserved
    (in particular `pos < allocated`: the loop allocated enough buffers within its fuel). -/
theorem C37_seq_growBy (a : Arena) (hB : 0 < a.bufSize) (hinv : AInv a) (delta : Nat) :
    let r := growBy a delta
    r.2 = a.pos ∧ r.1.pos = a.pos + delta ∧
    r.1.items = a.items ++ List.replicate delta defaultElem ∧ AInv r.1 :=
  growBy_spec a hB hinv.tinv hinv.2.2.2 delta

/-- `grow_by` never changes `kBufferSize` and never releases a buffer -/
theorem C37_seq_growBy_frame (a : Arena) (delta : Nat) :
    (growBy a delta).1.bufSize = a.bufSize ∧ a.buffersPos ≤ (growBy a delta).1.buffersPos :=
  (growBy_frame a delta).2.2

/-- the index → buffer map is total below `pos`: every index `< pos` lies in an allocated buffer,
    at an offset below `kBufferSize` -/
theorem C37_seq_index_in_buffer (a : Arena) (hB : 0 < a.bufSize) (hinv : AInv a) (idx : Nat)
    (h : idx < a.pos) : idx / a.bufSize < a.buffersPos ∧ idx % a.bufSize < a.bufSize := by
  obtain ⟨h1, h2, _, _⟩ := hinv
  refine ⟨?_, Nat.mod_lt _ hB⟩
  rw [Nat.div_lt_iff_lt_mul hB, Nat.mul_comm, ← h1]
  omega

/-- the constructor: invariant, size, and `kBufferSize = 2 ^ ceil(log2 minBuffSize) ≥ minBuffSize` -/
theorem C37_seq_mk (minBuf initial : Nat) (_h : 1 ≤ minBuf) :
    AInv (mk minBuf initial) ∧ (mk minBuf initial).pos = initial ∧
    minBuf ≤ (mk minBuf initial).bufSize ∧ ∃ k, (mk minBuf initial).bufSize = 2 ^ k := by
  obtain ⟨h1, h2, h3, _⟩ := mk_spec minBuf initial
  exact ⟨h1, h2, by rw [h3]; exact ceilLog2_spec minBuf, _, h3⟩

/-- the constructor default-constructs `initial` elements -/
theorem C37_seq_mk_items (minBuf initial : Nat) :
    (mk minBuf initial).items = List.replicate initial defaultElem :=
  (mk_spec minBuf initial).2.2.2

/-- `kBufferSize` is the *least* power of two `≥ minBuffSize` -/
theorem C37_seq_mk_least (minBuf initial : Nat) (h : 1 ≤ minBuf) (k : Nat) (hk : minBuf ≤ 2 ^ k) :
    (mk minBuf initial).bufSize ≤ 2 ^ k := by
  rw [(mk_spec minBuf initial).2.2.1]
  unfold ceilLog2
  have hlo : 2 ^ Nat.log2 minBuf ≤ minBuf := Nat.log2_self_le (by omega)
  split
  · next e => rw [e]; exact hk
  · next ne =>
    have hlt : 2 ^ Nat.log2 minBuf < 2 ^ k := by omega
    have : Nat.log2 minBuf < k := (Nat.pow_lt_pow_iff_right (by omega)).1 hlt
    exact Nat.pow_le_pow_right (by omega) this

/-! ### well-formedness of reachable pool states -/

theorem C37_wf_init : WF St.init := WF.init

theorem C37_wf_step (s : St) (h : WF s) (op : Op) : WF (step s op).1 := by
  rw [step_fst]; exact h.pres_stepSt op

theorem C37_wf_reachable (ops : List Op) : WF (runOps St.init ops) := WF.init.pres_runOps ops

/-! ### ledger -/

/-- element buffers alive = sum over the live arenas of their number of buffers: every buffer
    allocated (by a constructor, a copy, `grow_by`) is freed exactly once (by the destructor of the
    arena owning it at that time); a copy allocates exactly `buffersPos` buffers -/
theorem C37_buffers_ledger (ops : List Op) :
    (runOps St.init ops).buffersLive
      = ((runOps St.init ops).arenas.map fun p => (p.2.buffersPos : Int)).sum :=
  Led.pres_runOps WF.init Led.init ops

/-- once every arena has been destroyed no buffer is outstanding -/
theorem C37_all_destroyed (ops : List Op) (h : (runOps St.init ops).arenas = []) :
    (runOps St.init ops).buffersLive = 0 := by
  rw [C37_buffers_ledger, h]; rfl

/-- every arena of a reachable pool is a moved-from shell or a live arena satisfying `AInv` -/
theorem C37_pool_inv (ops : List Op) :
    ∀ p ∈ (runOps St.init ops).arenas, p.2 = emptyShell ∨ (0 < p.2.bufSize ∧ AInv p.2) :=
  POk.pres_runOps POk.init ops

/-! ### container semantics, operation by operation -/

/-- construction: the new arena `s.next` is `mk minBuf initial` (see `C37_seq_mk`) -/
theorem C37_sem_mk (s : St) (h : WF s) (minBuf initial : Nat) (hm : minBuf ≠ 0) :
    get (step s (.mk minBuf initial)).1 s.next = some (mk minBuf initial) := by
  have hnx : lk s.arenas s.next = none := h.get_next
  rw [step_fst]
  simp [stepSt, hm, get_eq, lk_append, lk_cons, hnx]

/-- copy construction: the new arena equals the source (same size, capacity, contents); the source
    is unchanged -/
theorem C37_sem_copyCtor (s : St) (h : WF s) (src : Nat) (a : Arena) (hsrc : get s src = some a) :
    get (step s (.copyCtor src)).1 s.next = some a ∧
    get (step s (.copyCtor src)).1 src = some a := by
  have hnx : lk s.arenas s.next = none := h.get_next
  have hsrc' : lk s.arenas src = some a := hsrc
  rw [step_fst]
  simp only [stepSt, hsrc]
  constructor
  · simp [get_eq, lk_append, lk_cons, hnx]
  · simp [get_eq, lk_append, hsrc']

/-- move construction: the new arena is the old source; the source becomes the empty shell -/
theorem C37_sem_moveCtor (s : St) (h : WF s) (src : Nat) (a : Arena) (hsrc : get s src = some a) :
    get (step s (.moveCtor src)).1 s.next = some a ∧
    get (step s (.moveCtor src)).1 src = some emptyShell := by
  have hnx : lk s.arenas s.next = none := h.get_next
  have hsrc' : lk s.arenas src = some a := hsrc
  have hne : s.next ≠ src := by
    intro e; rw [← e, hnx] at hsrc'; cases hsrc'
  rw [step_fst]
  simp only [stepSt, hsrc]
  constructor
  · simp [get_eq, lk_append, lk_cons, lk_upd_ne _ _ _ _ hne, hnx]
  · simp [get_eq, lk_append, lk_upd_self, hsrc']

/-- copy assignment: `dst` becomes equal to `src`; `src` is unchanged (also when `dst = src`) -/
theorem C37_sem_copyAssign (s : St) (dst src : Nat) (d a : Arena)
    (hdst : get s dst = some d) (hsrc : get s src = some a) :
    get (step s (.copyAssign dst src)).1 dst = some a ∧
    get (step s (.copyAssign dst src)).1 src = some a := by
  have hdst' : lk s.arenas dst = some d := hdst
  have hsrc' : lk s.arenas src = some a := hsrc
  rw [step_fst]
  simp only [stepSt, hdst, hsrc]
  have h1 : lk (upd s.arenas dst a) dst = some a := by simp [lk_upd_self, hdst']
  refine ⟨by simpa [get_eq] using h1, ?_⟩
  by_cases hne : src = dst
  · subst hne; simpa [get_eq] using h1
  · simp [get_eq, lk_upd_ne _ _ _ _ hne, hsrc']

/-- move assignment (`dst ≠ src`): the two arenas are exchanged (the old contents of `dst` die
    with the moved-from object) -/
theorem C37_sem_moveAssign (s : St) (dst src : Nat) (d a : Arena) (hne : dst ≠ src)
    (hdst : get s dst = some d) (hsrc : get s src = some a) :
    get (step s (.moveAssign dst src)).1 dst = some a ∧
    get (step s (.moveAssign dst src)).1 src = some d := by
  have hdst' : lk s.arenas dst = some d := hdst
  have hsrc' : lk s.arenas src = some a := hsrc
  rw [step_fst]
  simp only [stepSt, hdst, hsrc, if_neg hne]
  constructor
  · simp [get_eq, lk_upd_self, lk_upd_ne _ _ _ _ hne, hdst']
  · simp [get_eq, lk_upd_self, lk_upd_ne _ _ _ _ (Ne.symm hne), hsrc']

/-- `swap(x, y)` (`x ≠ y`): the two arenas are exchanged -/
theorem C37_sem_swap (s : St) (x y : Nat) (a b : Arena) (hne : x ≠ y)
    (hx : get s x = some a) (hy : get s y = some b) :
    get (step s (.swap x y)).1 x = some b ∧ get (step s (.swap x y)).1 y = some a := by
  have hx' : lk s.arenas x = some a := hx
  have hy' : lk s.arenas y = some b := hy
  rw [step_fst]
  simp only [stepSt, hx, hy, if_neg hne]
  constructor
  · simp [get_eq, lk_upd_self, lk_upd_ne _ _ _ _ hne, hx']
  · simp [get_eq, lk_upd_self, lk_upd_ne _ _ _ _ (Ne.symm hne), hy']

/-- self move-assignment / self swap leave the whole state unchanged -/
theorem C37_sem_self (s : St) (o : Nat) :
    (step s (.moveAssign o o)).1 = s ∧ (step s (.swap o o)).1 = s := by
  constructor <;>
  · rw [step_fst]; simp only [stepSt]
    split
    · simp
    · rfl

/-- `grow_by(delta)` on a live arena: it becomes `(growBy a delta).1` (see `C37_seq_growBy`): old
    elements kept, `delta` default elements appended; the call returns the old size -/
theorem C37_sem_growBy (s : St) (o delta : Nat) (a : Arena) (ho : get s o = some a)
    (hB : a.bufSize ≠ 0) :
    ∃ a', get (step s (.growBy o delta)).1 o = some a' ∧ a'.pos = a.pos + delta ∧
      a'.items = a.items ++ List.replicate delta defaultElem ∧ a'.bufSize = a.bufSize ∧
      (step s (.growBy o delta)).2.map (·.ret) = some (a.pos : Int) := by
  have ho' : lk s.arenas o = some a := ho
  obtain ⟨f1, f2, f3, _⟩ := growBy_frame a delta
  refine ⟨(growBy a delta).1, ?_, f1, f2, f3, ?_⟩
  · rw [step_fst]
    simp [stepSt, ho, hB, get_eq, lk_upd_self, ho']
  · simp [step, ho, hB, outOf, growBy_snd]

/-- element assignment at a valid index -/
theorem C37_sem_set (s : St) (o idx : Nat) (v : Int) (a : Arena) (ho : get s o = some a)
    (hidx : idx < a.pos) :
    get (step s (.set o idx v)).1 o = some { a with items := a.items.set idx v } := by
  have ho' : lk s.arenas o = some a := ho
  rw [step_fst]
  simp [stepSt, ho, hidx, get_eq, lk_upd_self, ho']

/-- destruction: the arena no longer exists -/
theorem C37_sem_destroy (s : St) (o : Nat) : get (step s (.destroy o)).1 o = none := by
  rw [step_fst]; simp only [stepSt]
  split
  · rw [get_eq]; simp only []; rw [lk_filter]; simp
  · next hn => exact hn

/-- observers change nothing -/
theorem C37_sem_query (s : St) (o : Nat) : (step s (.query o)).1 = s := by
  rw [step_fst]; rfl

/-- the arena ids an operation may write (create, modify or remove) in state `s` -/
def Seq.writes (s : St) : Op → List Nat
  | .mk _ _ => [s.next]
  | .growBy o _ => [o]
  | .set o _ _ => [o]
  | .copyCtor _ => [s.next]
  | .moveCtor src => [s.next, src]
  | .copyAssign dst _ => [dst]
  | .moveAssign dst src => [dst, src]
  | .swap x y => [x, y]
  | .destroy o => [o]
  | .query _ => []

/-- frame: every other arena is untouched (and every other id stays absent) -/
theorem C37_sem_frame (s : St) (op : Op) (o : Nat) (ho : o ∉ writes s op) :
    get (step s op).1 o = get s o := by
  rw [step_fst]
  cases op with
  | mk minBuf initial =>
    simp only [writes, List.mem_singleton] at ho
    simp only [stepSt]
    split
    · rfl
    · simp [get_eq, lk_append, lk_cons, Ne.symm ho]
  | growBy o' delta =>
    simp only [writes, List.mem_singleton] at ho
    simp only [stepSt]
    split
    · split
      · rfl
      · simp [get_eq, lk_upd_ne _ _ _ _ ho]
    · rfl
  | set o' idx v =>
    simp only [writes, List.mem_singleton] at ho
    simp only [stepSt]
    split
    · split
      · simp [get_eq, lk_upd_ne _ _ _ _ ho]
      · rfl
    · rfl
  | copyCtor src =>
    simp only [writes, List.mem_singleton] at ho
    simp only [stepSt]
    split
    · simp [get_eq, lk_append, lk_cons, Ne.symm ho]
    · rfl
  | moveCtor src =>
    simp only [writes, List.mem_cons, List.not_mem_nil, or_false, not_or] at ho
    simp only [stepSt]
    split
    · simp [get_eq, lk_append, lk_cons, Ne.symm ho.1, lk_upd_ne _ _ _ _ ho.2]
    · rfl
  | copyAssign dst src =>
    simp only [writes, List.mem_singleton] at ho
    simp only [stepSt]
    split
    · simp [get_eq, lk_upd_ne _ _ _ _ ho]
    · rfl
  | moveAssign dst src =>
    simp only [writes, List.mem_cons, List.not_mem_nil, or_false, not_or] at ho
    simp only [stepSt]
    split
    · split
      · rfl
      · simp [get_eq, lk_upd_ne _ _ _ _ ho.1, lk_upd_ne _ _ _ _ ho.2]
    · rfl
  | swap x y =>
    simp only [writes, List.mem_cons, List.not_mem_nil, or_false, not_or] at ho
    simp only [stepSt]
    split
    · split
      · rfl
      · simp [get_eq, lk_upd_ne _ _ _ _ ho.1, lk_upd_ne _ _ _ _ ho.2]
    · rfl
  | destroy o' =>
    simp only [writes, List.mem_singleton] at ho
    simp only [stepSt]
    split
    · simp only [get_eq]; rw [lk_filter, if_neg ho]
    · rfl
  | query o' => rfl

end SeqLayer

/-! ## concurrent layer -/

/-- In every reachable state of `proto B` (any number of threads, any interleaving):
    `0 ≤ pos_ < allocatedSize_ ≤ B * buffersPos_`, `1 ≤ buffersPos_ ≤ buffersSize_`;
    `allocatedSize_ = B * buffersPos_` whenever no thread is between the increment of `buffersPos_`
    and the store publishing the new `allocatedSize_` (in particular whenever the mutex is free), and
    `allocatedSize_ + B = B * buffersPos_` in that window — the buffer is in the table before
    `allocatedSize_`, hence before `pos_`, can pass its first index;
    at most one thread is inside the resize section, and the mutex word is 1 iff some thread is. -/
theorem C37_conc_inv (B : Nat) (hB : 1 ≤ B) (s : State (proto B)) (h : Reachable (init B) s) :
    s.mem 1 ≤ B * s.mem 5 ∧
    ((s.mem 1 = B * s.mem 5 ∧ ∀ t, midAlloc (s.loc t) = false) ∨
     (s.mem 1 + B = B * s.mem 5 ∧ ∃ t, midAlloc (s.loc t) = true)) ∧
    (s.mem 3 = 0 → s.mem 1 = B * s.mem 5) ∧
    1 ≤ s.mem 5 ∧ s.mem 5 ≤ s.mem 4 ∧ 0 ≤ s.mem 0 ∧ s.mem 0 < s.mem 1 ∧
    (∀ t u, holdsLock (s.loc t) = true → holdsLock (s.loc u) = true → t = u) ∧
    (s.mem 3 = 0 ∨ s.mem 3 = 1) ∧ (s.mem 3 = 1 ↔ ∃ t, holdsLock (s.loc t) = true) := by
  have hI : MInv B s.mem s.loc := (inv_reachable hB h).minv
  have ha := minv_alloc hI
  have hB0 : (0 : Int) ≤ B := Int.natCast_nonneg B
  refine ⟨?_, ha, hI.free, hI.bp1, hI.bpbs, hI.pos0, hI.posLt, hI.uniq, hI.lkv, hI.owner, ?_⟩
  · rcases ha with ⟨e, _⟩ | ⟨e, _⟩ <;> omega
  · rintro ⟨t, ht⟩; exact hI.held t ht

/-- every index below `pos_` (indeed below `allocatedSize_`) lies in a buffer that is already in
    the table: `idx / B < buffersPos_` -/
theorem C37_conc_index_in_buffer (B : Nat) (hB : 1 ≤ B) (s : State (proto B))
    (h : Reachable (init B) s) (idx : Int) (hidx : idx < s.mem 1) :
    idx / B < s.mem 5 ∧ s.mem 0 < s.mem 1 := by
  obtain ⟨h1, _, _, _, _, _, h7, _⟩ := C37_conc_inv B hB s h
  refine ⟨?_, h7⟩
  have hBpos : (0 : Int) < B := by omega
  rw [Int.ediv_lt_iff_lt_mul hBpos, Int.mul_comm]
  omega

/-- thread-local knowledge: no thread is ever parked; a thread about to claim `[old, old + d)` has
    `0 ≤ d`, `0 ≤ old` and `old + d < allocatedSize_` (the buffers of its whole range exist); the
    lock holder's copy of `allocatedSize_` is current -/
theorem C37_conc_local (B : Nat) (hB : 1 ≤ B) (s : State (proto B)) (h : Reachable (init B) s)
    (t : TId) :
    s.parked t = none ∧
    (∀ d old, s.loc t = .gCas d old → 0 ≤ d ∧ 0 ≤ old ∧ old + d < s.mem 1) ∧
    (∀ d old, s.loc t = .gUnlock d old → 0 ≤ d ∧ 0 ≤ old ∧ old + d < s.mem 1) ∧
    (∀ d old cur, s.loc t = .gLdBP d old cur ∨ s.loc t = .gStoreAlloc d old cur →
      cur = s.mem 1) := by
  have hI := inv_reachable hB h
  have hk := hI.minv.locOk t
  refine ⟨hI.np t, ?_, ?_, ?_⟩
  · intro d old hl
    have hl' : (s.loc t : L) = .gCas d old := hl
    rw [hl'] at hk; exact hk
  · intro d old hl
    have hl' : (s.loc t : L) = .gUnlock d old := hl
    rw [hl'] at hk; exact ⟨hk.1, hk.2.1, hk.2.2.1⟩
  · intro d old cur hl
    rcases hl with hl | hl
    · have hl' : (s.loc t : L) = .gLdBP d old cur := hl
      rw [hl'] at hk; exact hk.2.2.1
    · have hl' : (s.loc t : L) = .gStoreAlloc d old cur := hl
      rw [hl'] at hk; exact hk.2.2.1

/-- The successful position claims of a history — the pairs `(old, new)` of the events
    `cas pos_ : old → new` that observed `old`, with `old < new` (claims of length `d = 0` are
    skipped: `Tiles` chunks are non-empty) — tile `[0, size())` in history order: concurrent
    `grow_by` calls obtain contiguous, pairwise disjoint ranges whose union is the index range. -/
theorem C37_ranges_tile (B : Nat) (hB : 1 ≤ B) (as : List (Act (proto B))) (s : State (proto B))
    (evs : List Ev) (h : runEvs (init B) as = some (s, evs)) :
    Dispenso.Tiles 0 (s.mem 0) (claims evs) :=
  tiles_run (B := B) as (init B) s evs (inv_init B hB) h

/-- the general form: from any reachable state, the claims of a run tile `[pos, final pos)` -/
theorem C37_ranges_tile_from (B : Nat) (hB : 1 ≤ B) (s0 : State (proto B))
    (h0 : Reachable (init B) s0) (as : List (Act (proto B))) (s : State (proto B))
    (evs : List Ev) (h : runEvs s0 as = some (s, evs)) :
    Dispenso.Tiles (s0.mem 0) (s.mem 0) (claims evs) :=
  tiles_run (B := B) as s0 s evs (inv_reachable hB h0) h

/-- every index of `[0, size())` is claimed by exactly one successful `grow_by` CAS, every other
    index by none -/
theorem C37_ranges_cover_once (B : Nat) (hB : 1 ≤ B) (as : List (Act (proto B)))
    (s : State (proto B)) (evs : List Ev) (h : runEvs (init B) as = some (s, evs)) (x : Int) :
    Dispenso.coverCount (claims evs) x = if 0 ≤ x ∧ x < s.mem 0 then 1 else 0 :=
  (C37_ranges_tile B hB as s evs h).coverCount_eq x

/-- The value `grow_by` returns is the `old` of its successful CAS. From `gCas d old`: a step that
    observes `old` installs `old + d`, emits the claim event and moves to `gConstruct old …`; a step
    that observes anything else changes nothing and retries with the observed value. Every
    `gConstruct old b e` step keeps `old` and memory, ending in `.done [old]` (`retOf` then yields
    `[old]`). -/
theorem C37_grow_returns_claim (B : Nat) (hB : 1 ≤ B) (s s' : State (proto B))
    (h : Reachable (init B) s) (t : TId) (he : exec s (.step t) = some s') :
    (∀ d old, s.loc t = .gCas d old →
      (s.mem 0 = old → s'.loc t = .gConstruct old (old / B) ((old + d) / B) ∧
        s'.mem 0 = old + d ∧ evOf s (.step t) = some ⟨t, .cas 0 old (old + d), old⟩) ∧
      (s.mem 0 ≠ old → s'.loc t = .gLoadAlloc d (s.mem 0) ∧ s'.mem = s.mem)) ∧
    (∀ old b e, s.loc t = .gConstruct old b e →
      s'.mem = s.mem ∧ (s'.loc t = .gConstruct old (b + 1) e ∨ s'.loc t = .done [old])) := by
  have hI := inv_reachable hB h
  rcases exec_inv (B := B) hI.np he with ⟨_, _, hc, _⟩ | ⟨t', o, r, l', m', ht, hs, hm, _, hloc, hev⟩
  · cases hc
  · cases ht
    have hlt : s'.loc t = l' := by
      rw [hloc]; exact if_pos rfl
    constructor
    · intro d old hl
      have hl' : (s.loc t : L) = .gCas d old := hl
      rw [hl'] at hs
      constructor
      · intro h0
        simp only [stepL, op, memEffect, cont, h0, if_true, Option.some.injEq, Prod.mk.injEq] at hs
        obtain ⟨rfl, rfl, rfl, rfl⟩ := hs
        exact ⟨hlt, by rw [hm]; simp, hev⟩
      · intro h0
        simp only [stepL, op, memEffect, cont, h0, if_false, Option.some.injEq, Prod.mk.injEq] at hs
        obtain ⟨rfl, rfl, rfl, rfl⟩ := hs
        exact ⟨hlt, hm⟩
    · intro old b e hl
      have hl' : (s.loc t : L) = .gConstruct old b e := hl
      rw [hl'] at hs
      simp only [stepL, op, memEffect, cont, Option.some.injEq, Prod.mk.injEq] at hs
      obtain ⟨rfl, rfl, rfl, rfl⟩ := hs
      refine ⟨hm, ?_⟩
      rw [hlt]
      by_cases hc : b < e
      · left; rw [if_pos hc]
      · right; rw [if_neg hc]

/-! ### concrete runs -/

/-- the local state of thread `t`, typed as `L` (for `decide`) -/
def locAt {B : Nat} (s : State (proto B)) (t : TId) : L := s.loc t

/-- `B = 2`, two threads: `grow_by(3)` (thread 0) and `grow_by(2)` (thread 1) interleave. Both need
    the mutex; thread 1 spins on it while thread 0 adds a buffer (`allocated` 2 → 4). Thread 0 claims
    `[0,3)`; thread 1's CAS `0 → 2` fails (it observes 3), it retries from 3, takes the mutex again,
    doubles the table (`buffersSize_` 2 → 4), adds a third buffer (`allocated` 4 → 6) and claims
    `[3,5)`. The calls return 0 and 3. -/
example : ∃ s evs,
    runEvs (init 2) [.call 0 (L.gLoadPos 3), .call 1 (L.gLoadPos 2), .step 0, .step 1, .step 0,
      .step 1, .step 0, .step 1, .step 0, .step 0, .step 0, .step 0, .step 0, .step 0, .step 0,
      .step 1, .step 1, .step 1, .step 0, .step 1, .step 1, .step 1, .step 1, .step 1, .step 1,
      .step 1, .step 1, .step 1, .step 1, .step 1, .step 1, .step 1, .step 0, .step 0, .step 1,
      .step 1] = some (s, evs) ∧
    claims evs = [(0, 3), (3, 5)] ∧ s.mem 0 = 5 ∧ s.mem 1 = 6 ∧ s.mem 4 = 4 ∧ s.mem 5 = 3 ∧
    s.mem 3 = 0 ∧ locAt s 0 = .done [0] ∧ locAt s 1 = .done [3] :=
  exists_of_runEvs_dec
    (fun (s : State (proto 2)) evs => claims evs = [(0, 3), (3, 5)] ∧ s.mem 0 = 5 ∧ s.mem 1 = 6 ∧ s.mem 4 = 4 ∧
      s.mem 5 = 3 ∧ s.mem 3 = 0 ∧ locAt s 0 = .done [0] ∧ locAt s 1 = .done [3])
    (by decide)

/-- in the middle of that run (thread 0 has incremented `buffersPos_`, not yet published
    `allocatedSize_`) the mutex is held and `allocated + B = B * buffersPos` -/
example : ∃ s evs,
    runEvs (init 2) [.call 0 (L.gLoadPos 3), .call 1 (L.gLoadPos 2), .step 0, .step 1, .step 0,
      .step 1, .step 0, .step 1, .step 0, .step 0, .step 0, .step 0, .step 0] = some (s, evs) ∧
    s.mem 1 = 2 ∧ s.mem 5 = 2 ∧ s.mem 3 = 1 ∧ locAt s 0 = .gStoreAlloc 3 0 2 ∧
    locAt s 1 = .gLock 2 0 :=
  exists_of_runEvs_dec
    (fun (s : State (proto 2)) _ => s.mem 1 = 2 ∧ s.mem 5 = 2 ∧ s.mem 3 = 1 ∧
      locAt s 0 = .gStoreAlloc 3 0 2 ∧ locAt s 1 = .gLock 2 0)
    (by decide)

namespace Seq

/-- `ConcurrentObjectArena(3)` (`kBufferSize = 4`), `grow_by(5)` (a second buffer), a copy, an
    element assignment in the copy, a swap; both destroyed at the end: nothing outstanding -/
example :
    let s := runOps St.init [.mk 3 0, .growBy 0 5, .copyCtor 0, .set 1 2 9, .swap 0 1]
    s.arenas =
      [(0, { bufSize := 4, pos := 5, allocated := 8, buffersPos := 2, buffersSize := 2,
             items := [7, 7, 9, 7, 7] }),
       (1, { bufSize := 4, pos := 5, allocated := 8, buffersPos := 2, buffersSize := 2,
             items := [7, 7, 7, 7, 7] })] ∧
    s.buffersLive = 4 ∧
    (runOps s [.destroy 0, .destroy 1]).arenas = [] ∧
    (runOps s [.destroy 0, .destroy 1]).buffersLive = 0 := by
  decide

/-- `grow_by(5)` on the fresh arena returns the old size 0 -/
example : ((step (runOps St.init [.mk 3 0]) (.growBy 0 5)).2.map fun o => (o.ret, o.size, o.cap, o.nbuf))
    = some (0, 5, 8, 2) := by
  decide

end Seq

end Dispenso.Arena

/-! ### buffer-pointer tables and lock-free readers (`Model/ArenaTables.lean`) -/
namespace Dispenso.Arena
namespace Tables
open Dispenso.ArenaTables

/-- **C37 (references stay valid across growth, lock-free readers).** In every history of `allocateBuffer`,
reader loads, reader index steps and a destructor call that respects its contract, no step ever indexes
a freed table: a reader suspended between the two halves of `operator[]` for any number of table
re-allocations still reads live memory. -/
theorem C37_tables_no_uaf (ops : List Op) : Out.uaf ∉ (run {} ops).2 := by
  suffices h : ∀ s, Inv s → Out.uaf ∉ (run s ops).2 from h _ inv_init
  induction ops with
  | nil => intro s _; simp [run]
  | cons o os ih =>
    intro s hs
    simp only [run, List.mem_cons, not_or]
    refine ⟨?_, ih _ (step_inv s o hs)⟩
    cases o with
    | alloc =>
      by_cases ha : s.alive = true
      · by_cases hu : s.used < s.size <;> simp [step, ha, hu]
      · simp [step, ha]
    | load r =>
      by_cases hc : (!s.alive || decide (s.tables = 0)) = true <;> simp [step, hc]
    | destroy =>
      by_cases hc : (!s.alive || !s.snaps.isEmpty) = true <;> simp [step, hc]
    | index r i =>
      cases hsn : snapOf s r with
      | none => simp [step, hsn]
      | some p =>
        obtain ⟨id, n⟩ := p
        by_cases hi : i < n
        · obtain ⟨h1, h2, _, _, _⟩ := hs
          have hal : s.alive = true := by
            cases ha : s.alive
            · have := h2 ha; simp [snapOf, this] at hsn
            · rfl
          simp [step, hsn, hi, h1 hal]
        · simp [step, hsn, hi]

/-- **Every table ever published is current or retained**: while the arena is alive, `deleteLater_` holds
exactly one table per re-allocation (the quantity the white-box tie reads from the implementation). -/
theorem C37_tables_retained (ops : List Op) (h : (run {} ops).1.alive = true) :
    (run {} ops).1.freed = [] ∧
    ((run {} ops).1.retired.length + 1 = (run {} ops).1.tables ∨ (run {} ops).1.tables = 0) := by
  have hi := run_inv {} ops inv_init
  refine ⟨hi.1 h, ?_⟩
  rcases hi.2.2.1 h with h' | ⟨h', _⟩
  · exact Or.inl h'
  · exact Or.inr h'

/-- non-vacuity: a reader suspended across two table re-allocations (capacity 2 → 4 → 8) indexes live memory,
and the destructor then frees all three tables -/
example : (run {} [.alloc, .load 7, .alloc, .alloc, .alloc, .alloc, .index 7 0, .destroy]).2
    = [.table 2 1 0, .ok, .table 2 2 0, .table 4 3 1, .table 4 4 1, .table 8 5 2, .ok, .ok] := by decide
example : (run {} [.alloc, .alloc, .alloc, .destroy]).1.freed = [1, 0] := by decide
/-- the model can express the failure: were a retired table freed at once, the index step would answer `uaf` -/
example : (step { tables := 2, size := 4, used := 3, retired := [], freed := [0], snaps := [(7, 0, 1)] } (.index 7 0)).2
    = .uaf := by decide

/-- The table ledger refines the table bookkeeping of the sequential arena model: one `alloc` step moves
(`size`, `used`) exactly as `Seq.allocateBuffer` moves (`buffersSize`, `buffersPos`), so the two models of
`allocateBuffer()` cannot drift apart. -/
theorem C37_tables_refine_seq (s : St) (a : Seq.Arena) (hal : s.alive = true)
    (hs : s.size = a.buffersSize) (hu : s.used = a.buffersPos) :
    (step s .alloc).1.size = (Seq.allocateBuffer a).buffersSize ∧
    (step s .alloc).1.used = (Seq.allocateBuffer a).buffersPos := by
  by_cases h : s.used < s.size
  · have h' : a.buffersPos < a.buffersSize := by omega
    simp [step, Seq.allocateBuffer, hal, h', hs, hu]
  · have h' : ¬ a.buffersPos < a.buffersSize := by omega
    simp [step, Seq.allocateBuffer, hal, h', hs, hu]

end Tables
end Dispenso.Arena
