import DispensoVerif.Proofs.SchedFq

/-!
# C47 — a task submitted with `ForceQueuingTag` never runs inline on the submitting call

Model: `DispensoVerif/Model/Sched.lean`; `fq` is the ForceQueuingTag flag of a submission frame
(`callSched _ _ fq` / `callBulk _ fq`).
-/
namespace Dispenso.Sched

/-- while the tag is set, the submitting call cannot begin a body (its own reserved task inline,
or — since a submission call never takes tasks from a tier — any other) -/
theorem C47_fq_never_begins_inline {s : St} (h : Reach s) (t id : Nat)
    (hfq : (s.top t).fq = true) (hk : (s.top t).kind = .sched ∨ (s.top t).kind = .bulk) :
    step s t (.begin_ id) = none := by
  cases hstep : step s t (.begin_ id) with
  | none => rfl
  | some s' =>
    exfalso
    obtain ⟨f, rest, hs, hst⟩ := step_inv' hstep
    rw [top_eq hs] at hfq hk
    have hf := (Inv.reach h).frame hs
    cases hst with
    | beginTook _ hb hp hsub hq =>
      have := kind_of_took hf (Or.inl hp)
      rcases hk with hk | hk
      · exact this.1 hk
      · exact this.2.1 hk
    | beginGuarded _ st hb hp hsub =>
      have := kind_of_took hf (Or.inr ⟨st, hp⟩)
      rcases hk with hk | hk
      · exact this.1 hk
      · exact this.2.1 hk
    | beginInlPool _ hb hp hr hfq' => rw [hfq] at hfq'; cases hfq'
    | beginInlGuarded _ _ hb hp hr hfq' htc => rw [hfq] at hfq'; cases hfq'
    | beginInlTs _ hb hp hr hfq' => rw [hfq] at hfq'; cases hfq'

/-- the decisions to run the reserved task on the caller are rejected while the tag is set, except
`inline0` (pool without threads / pool being resized), which clears the tag -/
theorem C47_fq_blocks_inline_decisions {s : St} (t S : Nat) (hfq : (s.top t).fq = true) :
    step s t .inlinePool = none ∧ step s t (.tsInline S) = none := by
  simp [step, hfq]

/-- `inline0` requires a pool without threads, a pool that is being resized, or a bulk frame already
marked `zeroPath`: `ThreadPool::scheduleBulkImpl` reads `numThreads_` once at the start of the call
and then runs every task of that call inline, even if the pool has been resized meanwhile -/
theorem C47_inline0_needs_no_threads {s s' : St} {t : Nat} (hs : step s t .inline0 = some s') :
    s.nThreads = 0 ∨ s.resizing = true ∨ (s.top t).zeroPath = true := by
  obtain ⟨f, rest, hs0, hst⟩ := step_inv' hs
  rw [top_eq hs0]
  cases hst with
  | inline0 hk hp hn => exact hn

/-- in every reachable state a frame marked `zeroPath` is a bulk-submission frame whose tag is
already cleared: the mark is only ever set by an `inline0` on a bulk frame, which clears `fq` in
the same step, and no event sets the tag of an existing frame.  Hence the `zeroPath` disjunct of
`C47_inline0_needs_no_threads` never applies to a frame that still carries the tag. -/
theorem C47_zeroPath_only_after_fq_cleared {s : St} (h : Reach s) (t : Nat) (f : Frame)
    (hf : f ∈ s.stack t) (hz : f.zeroPath = true) : f.fq = false ∧ f.kind = .bulk :=
  (Inv.reach h).zp t f hf hz

/-- the only event that turns the tag of a frame from true to false is `inline0`, acting on the
top frame of its thread, in a pool without threads or being resized (the `zeroPath` disjunct of
`C47_inline0_needs_no_threads` is impossible here: a frame that still carries the tag is not marked,
`C47_zeroPath_only_after_fq_cleared`).  A frame is identified by its
thread and its depth `k` (position from the bottom of the stack); `frameAt (s.stack t') k` is the
frame at that depth. -/
theorem C47_fq_cleared_only_without_threads {s s' : St} {t : Nat} {e : Ev} (h : Reach s)
    (hs : step s t e = some s') (t' k : Nat) (f f' : Frame)
    (h1 : frameAt (s.stack t') k = some f) (h2 : frameAt (s'.stack t') k = some f')
    (hq : f.fq = true) (hq' : f'.fq = false) :
    e = .inline0 ∧ t' = t ∧ k + 1 = (s.stack t).length ∧ (s.nThreads = 0 ∨ s.resizing = true) := by
  obtain ⟨f0, rest, hs0, hst⟩ := step_inv' hs
  exact fq_cleared_shape (Inv.reach h).bot (Inv.reach h).zp hs0 hst.shape t' k f f' h1 h2 hq hq'

/-- top-frame form: if an event leaves the depth of the stack unchanged and the tag of the top
frame goes from true to false, the event is `inline0` -/
theorem C47_fq_cleared_top {s s' : St} {t : Nat} {e : Ev} (h : Reach s)
    (hs : step s t e = some s') (hd : (s'.stack t).length = (s.stack t).length)
    (hq : (s.top t).fq = true) (hq' : (s'.top t).fq = false) :
    e = .inline0 ∧ (s.nThreads = 0 ∨ s.resizing = true) := by
  obtain ⟨f0, rest, hs0⟩ := norm_exists (s.thr t)
  obtain ⟨f1, rest1, hs1⟩ := norm_exists (s'.thr t)
  have hl : rest1.length = rest.length := by
    simp only [stack_eq_norm, hs0, hs1, List.length_cons] at hd; omega
  have h1 : frameAt (s.stack t) rest.length = some f0 := by
    rw [stack_eq_norm, hs0]; exact frameAt_cons_top _ _
  have h2 : frameAt (s'.stack t) rest.length = some f1 := by
    rw [stack_eq_norm, hs1, ← hl]; exact frameAt_cons_top _ _
  rw [top_eq hs0] at hq
  rw [top_eq hs1] at hq'
  have := C47_fq_cleared_only_without_threads h hs t rest.length f0 f1 h1 h2 hq hq'
  exact ⟨this.1, this.2.2.2⟩

/-! ### non-vacuity -/


example : (run (St.init 0) sampleFqTrace).map (fun s => (s.begun, s.ended)) = some ([7], [7]) := rfl

/-- the hypotheses of `C47_fq_never_begins_inline` hold after the `callSched … true` event -/
example : (run (St.init 0) (sampleFqTrace.take 4)).map
    (fun s => ((s.top 0).fq, (s.top 0).kind == .sched)) = some (true, true) := rfl

/-- the inline decision is rejected for it -/
example : (run (St.init 0) (sampleFqTrace.take 4 ++ [(0, .inlinePool)])).isSome = false := rfl

/-- a pool without threads: `inline0` clears the tag and the task runs on the caller -/
example : (run (St.init 0)
    [(0, .callResize), (0, .ctor 0), (0, .retResize), (0, .callSched 0 7 true), (0, .inline0),
     (0, .begin_ 7), (0, .end_ 7), (0, .retSched)]).map (fun s => (s.begun, s.ended))
    = some ([7], [7]) := rfl

/-- a bulk call that found the pool without threads keeps running its tasks inline after the pool
has been resized meanwhile by another thread (`zeroPath`); the frame is marked and without tag -/
example : (run (St.init 0)
    [(0, .callBulk 0 true), (0, .gen 1), (0, .inline0), (0, .begin_ 1), (0, .end_ 1),
     (1, .callResize), (1, .ctor 2), (1, .retResize),
     (0, .gen 2), (0, .inline0)]).map
      (fun s => (s.nThreads, s.resizing, (s.top 0).zeroPath, (s.top 0).fq, (s.top 0).kind == .bulk))
    = some (2, false, true, false, true) := rfl

example : (run (St.init 0)
    [(0, .callBulk 0 true), (0, .gen 1), (0, .inline0), (0, .begin_ 1), (0, .end_ 1),
     (1, .callResize), (1, .ctor 2), (1, .retResize),
     (0, .gen 2), (0, .inline0), (0, .begin_ 2), (0, .end_ 2), (0, .retBulk)]).map
      (fun s => (s.begun, s.ended)) = some ([2, 1], [2, 1]) := rfl

/-- a bulk call that starts on a pool with threads cannot take `inline0`, nor can a later single
submission of the thread whose bulk call was marked -/
example : (run (St.init 0)
    [(1, .callResize), (1, .ctor 2), (1, .retResize),
     (0, .callBulk 0 true), (0, .gen 1), (0, .inline0)]).isSome = false := rfl

example : (run (St.init 0)
    [(0, .callBulk 0 true), (0, .gen 1), (0, .inline0), (0, .begin_ 1), (0, .end_ 1), (0, .retBulk),
     (1, .callResize), (1, .ctor 2), (1, .retResize),
     (0, .callSched 0 3 true), (0, .inline0)]).isSome = false := rfl

end Dispenso.Sched
