import DispensoVerif.Proofs.OnceFn
/-
C39 — `dispenso::OnceFunction`: a move-only, one-shot callable wrapper with 56 bytes of 64-aligned
inline storage and a small-buffer spill block for larger / over-aligned callables.
* Storage decision: inline storage is only chosen for callables that fit and whose alignment the
  inline buffer satisfies (`C39_plan_inline`, `C39_inline_aligned`); a spill block is a power of
  two that is large enough and a multiple of the callable's alignment, so a block aligned to its
  own size is aligned for the callable (`C39_plan_spill`, `C39_spill_aligned`); block sizes
  4..256 map to the size classes 0..6 (`C39_getOrdinal`).
* Exactly once: for every sequence of constructions, moves, invocations, `cleanupNotRun` calls and
  destructions, every stored callable is invoked at most once and destroyed at most once, and a
  callable that was invoked has been destroyed (`C39_exactly_once`); `operator()` invokes and
  destroys the callable and leaves the object empty (`C39_invoke`), `cleanupNotRun` destroys it
  without invoking it (`C39_cleanup`), moves transfer the callable without touching the ledgers
  (`C39_move_transfers`, `C39_move_transfers_assign`), consumed / moved-from objects are rejected
  (`C39_rejects_reuse`), and the spill blocks outstanding are exactly those of the objects still
  holding a spilled callable (`C39_blocks_ledger`).
The invariant is `Inv` (Proofs/OnceFn.lean); every reachable state satisfies it
(`C39_inv_reachable`, `C39_inv_step`).
-/
namespace Dispenso.OnceFn

/-! ### storage decision -/

/-- inline storage is chosen only if the callable fits the 56-byte buffer and needs at most its
    64-byte alignment -/
theorem C39_plan_inline (size align : Nat) :
    plan size align = .inline → size ≤ 56 ∧ align ≤ 64 :=
  plan_inline size align

/-- the 64-aligned inline buffer satisfies every power-of-two alignment up to 64 -/
theorem C39_inline_aligned (k : Nat) (hk : k ≤ 6) (addr : Nat) (h : addr % 64 = 0) :
    addr % 2 ^ k = 0 := by
  have h1 : 2 ^ k ∣ 2 ^ 6 := Nat.pow_dvd_pow 2 hk
  have h2 : (2 : Nat) ^ 6 ∣ addr := Nat.dvd_of_mod_eq_zero h
  exact Nat.mod_eq_zero_of_dvd (Nat.dvd_trans h1 h2)

/-- the spill block is large enough, a power of two, and a multiple of the callable's alignment -/
theorem C39_plan_spill (size align k a : Nat) (ha : align = 2 ^ k) (hk : k ≤ 8) (hs : 1 ≤ size)
    (hsz : size ≤ 2 ^ 32) (hp : plan size align = .spill a) :
    size ≤ a ∧ align ∣ a ∧ ∃ j, a = 2 ^ j :=
  plan_spill size align k a ha hk hs hsz hp

/-- a block aligned to its own size `a` is aligned to every divisor of `a` -/
theorem C39_spill_aligned (a align addr : Nat) (hd : align ∣ a) (h : addr % a = 0) :
    addr % align = 0 :=
  Nat.mod_eq_zero_of_dvd (Nat.dvd_trans hd (Nat.dvd_of_mod_eq_zero h))

/-- block sizes 4, 8, …, 256 map to the size classes 0, 1, …, 6 -/
theorem C39_getOrdinal : ∀ j, 2 ≤ j → j ≤ 8 → getOrdinal (2 ^ j) = j - 2 := by
  intro j h1 h2
  have : j = 2 ∨ j = 3 ∨ j = 4 ∨ j = 5 ∨ j = 6 ∨ j = 7 ∨ j = 8 := by omega
  rcases this with rfl | rfl | rfl | rfl | rfl | rfl | rfl <;> decide

/-! ### the invariant holds in every reachable state -/

theorem C39_inv_init : Inv St.init := Inv.init

theorem C39_inv_step (s : St) (h : Inv s) (op : Op) : Inv (step s op).1 := by
  rw [step_fst]; exact h.pres_stepSt op

theorem C39_inv_reachable (ops : List Op) : Inv (runOps St.init ops) :=
  Inv.init.pres_runOps ops

/-- `holders s c` is the number of objects whose contents is a callable with id `c` -/
theorem C39_holders_eq (s : St) (c : Nat) :
    holders s c = ((s.objs.countP fun p => p.2.map (·.callable) = some c : Nat) : Int) := by
  unfold holders
  refine Eq.trans ?_ (wsum_ind (fun x => decide (x.map (·.callable) = some c)) s.objs)
  congr 1
  funext x
  simp [hold]

/-- the object holds a callable stored in a spill block -/
def isSpilled : Option Fn → Bool
  | some ⟨_, .spill _⟩ => true
  | _ => false

/-- `spilled s` is the number of objects holding a spilled callable -/
theorem C39_spilled_eq (s : St) :
    spilled s = ((s.objs.countP fun p => isSpilled p.2 : Nat) : Int) := by
  unfold spilled
  refine Eq.trans ?_ (wsum_ind isSpilled s.objs)
  congr 1
  funext x
  rcases x with _ | ⟨c, _ | a⟩ <;> rfl

/-! ### exactly once -/

/-- every callable is invoked at most once and destroyed at most once; an invoked callable has been
    destroyed -/
theorem C39_exactly_once (ops : List Op) (c : Nat) :
    let s := runOps St.init ops
    count s.called c ≤ 1 ∧ count s.destroyed c ≤ 1 ∧
      (count s.called c = 1 → count s.destroyed c = 1) := by
  intro s
  have h : Inv s := C39_inv_reachable ops
  by_cases hc : c < s.nextCallable
  · rcases h.once c hc with h1 | h1 <;> omega
  · have := h.fresh c (by omega)
    omega

/-- a callable that is still held has been neither invoked nor destroyed, and nobody else holds
    it -/
theorem C39_held_pristine (s : St) (hinv : Inv s) (o : Nat) (f : Fn)
    (h : get s o = some (some f)) :
    holders s f.callable = 1 ∧ count s.called f.callable = 0 ∧
      count s.destroyed f.callable = 0 :=
  (hinv.held h).2

/-- `operator()`: the callable is invoked once, destroyed once, and the object is left empty -/
theorem C39_invoke (s : St) (hinv : Inv s) (o : Nat) (f : Fn) (h : get s o = some (some f)) :
    let s' := (step s (.invoke o)).1
    count s'.called f.callable = 1 ∧ count s'.destroyed f.callable = 1 ∧
      get s' o = some none := by
  intro s'
  obtain ⟨_, _, hc, hd⟩ := hinv.held h
  have hs : s' = { s with objs := pupd s.objs o none, called := bump s.called f.callable,
                          destroyed := bump s.destroyed f.callable,
                          blocks := s.blocks + -spS f.storage } := by
    show (step s (.invoke o)).1 = _
    rw [step_fst]; simp only [stepSt, h]
  rw [hs]
  refine ⟨?_, ?_, ?_⟩
  · show count (bump s.called f.callable) f.callable = 1
    rw [count_bump_self, hc]
  · show count (bump s.destroyed f.callable) f.callable = 1
    rw [count_bump_self, hd]
  · show lk (pupd s.objs o none) o = some none
    rw [lk_pupd_self, ← get_eq, h]; rfl

/-- `cleanupNotRun()`: the callable is destroyed once without being invoked, and the object is
    left empty -/
theorem C39_cleanup (s : St) (hinv : Inv s) (o : Nat) (f : Fn) (h : get s o = some (some f)) :
    let s' := (step s (.cleanup o)).1
    count s'.called f.callable = 0 ∧ count s'.destroyed f.callable = 1 ∧
      get s' o = some none := by
  intro s'
  obtain ⟨_, _, hc, hd⟩ := hinv.held h
  have hs : s' = { s with objs := pupd s.objs o none,
                          destroyed := bump s.destroyed f.callable,
                          blocks := s.blocks + -spS f.storage } := by
    show (step s (.cleanup o)).1 = _
    rw [step_fst]; simp only [stepSt, h]
  rw [hs]
  refine ⟨hc, ?_, ?_⟩
  · show count (bump s.destroyed f.callable) f.callable = 1
    rw [count_bump_self, hd]
  · show lk (pupd s.objs o none) o = some none
    rw [lk_pupd_self, ← get_eq, h]; rfl

/-- move construction: the new object holds the callable, the source holds nothing, and the
    ledgers (hence the call / destroy counts of the callable) are unchanged -/
theorem C39_move_transfers (s : St) (hinv : Inv s) (src : Nat) (f : Fn)
    (h : get s src = some (some f)) :
    let s' := (step s (.moveCtor src)).1
    get s' s.nextObj = some (some f) ∧ get s' src = some none ∧
      s'.called = s.called ∧ s'.destroyed = s.destroyed ∧ s'.blocks = s.blocks := by
  intro s'
  have hne : src ≠ s.nextObj := by
    intro e; rw [e, hinv.get_next] at h; cases h
  have hs : s' = { s with objs := pupd s.objs src none ++ [(s.nextObj, some f)],
                          nextObj := s.nextObj + 1 } := by
    show (step s (.moveCtor src)).1 = _
    rw [step_fst]; simp only [stepSt, h]
  rw [hs]
  refine ⟨?_, ?_, rfl, rfl, rfl⟩
  · show lk (pupd s.objs src none ++ [(s.nextObj, some f)]) s.nextObj = some (some f)
    have : lk s.objs s.nextObj = none := hinv.get_next
    rw [lk_append, lk_pupd_ne _ _ _ _ (Ne.symm hne), this, lk_cons]; simp
  · show lk (pupd s.objs src none ++ [(s.nextObj, some f)]) src = some none
    rw [lk_append, lk_pupd_self, ← get_eq, h]; rfl

/-- move assignment into an empty object: the destination holds the callable, the source holds
    nothing, and the ledgers are unchanged -/
theorem C39_move_transfers_assign (s : St) (dst src : Nat) (f : Fn)
    (hd : get s dst = some none) (h : get s src = some (some f)) :
    let s' := (step s (.moveAssign dst src)).1
    get s' dst = some (some f) ∧ get s' src = some none ∧
      s'.called = s.called ∧ s'.destroyed = s.destroyed ∧ s'.blocks = s.blocks := by
  intro s'
  have hne : dst ≠ src := by
    intro e; rw [e, h] at hd; cases hd
  have hs : s' = put (put s src none) dst (some f) := by
    show (step s (.moveAssign dst src)).1 = _
    rw [step_fst]; simp only [stepSt, hd, h, if_neg hne]
  rw [hs]
  refine ⟨?_, ?_, rfl, rfl, rfl⟩
  · rw [get_put_self, get_put_ne _ _ _ _ hne, hd]; rfl
  · rw [get_put_ne _ _ _ _ (Ne.symm hne), get_put_self, h]; rfl

/-- spill blocks outstanding = objects holding a spilled callable; none when every object is
    empty -/
theorem C39_blocks_ledger (ops : List Op) :
    let s := runOps St.init ops
    s.blocks = ((s.objs.countP fun p => isSpilled p.2 : Nat) : Int) ∧
      ((∀ p ∈ s.objs, p.2 = none) → s.blocks = 0) := by
  intro s
  have h : Inv s := C39_inv_reachable ops
  refine ⟨by rw [h.blocks, C39_spilled_eq], ?_⟩
  intro he
  rw [h.blocks]
  exact wsum_eq_zero spw s.objs (fun p hp => by rw [he p hp]; rfl)

/-- an empty (default-constructed, consumed or moved-from) object cannot be invoked, cleaned up or
    moved from: the operation is rejected and the state is unchanged -/
theorem C39_rejects_reuse (s : St) (o : Nat) (h : get s o = some none) :
    step s (.invoke o) = (s, none) ∧ step s (.cleanup o) = (s, none) ∧
      step s (.moveCtor o) = (s, none) ∧ ∀ dst, step s (.moveAssign dst o) = (s, none) := by
  refine ⟨?_, ?_, ?_, ?_⟩
  · simp only [step, h]
  · simp only [step, h]
  · simp only [step, h]
  · intro dst
    simp only [step, h]
    rcases get s dst with _ | _ | g <;> rfl

/-- the same for an object that does not exist (already destroyed) -/
theorem C39_rejects_unknown (s : St) (o : Nat) (h : get s o = none) :
    step s (.invoke o) = (s, none) ∧ step s (.cleanup o) = (s, none) ∧
      step s (.moveCtor o) = (s, none) ∧ step s (.drop o) = (s, none) := by
  refine ⟨?_, ?_, ?_, ?_⟩ <;> simp only [step, h]

/-- the destructor of an object still holding a callable is not modelled as `drop`: it is
    rejected (the code requires the callable to be consumed first) -/
theorem C39_drop_requires_empty (s : St) (o : Nat) (f : Fn) (h : get s o = some (some f)) :
    step s (.drop o) = (s, none) := by
  simp only [step, h]

/-! ### concrete runs -/

/-- a 100-byte callable goes to a 128-byte spill block (size class 5); a 56-byte one stays inline;
    a 16-byte one with alignment 128 is spilled to a 128-byte block -/
example : plan 100 8 = .spill 128 ∧ getOrdinal 128 = 5 ∧ plan 56 64 = .inline ∧
    plan 57 8 = .spill 64 ∧ plan 16 128 = .spill 128 := by
  decide

/-- create a 100-byte callable, move it twice, invoke it, drop everything -/
example :
    let s := runOps St.init [.create 100 8, .moveCtor 0, .moveCtor 1]
    s.objs = [(0, none), (1, none), (2, some ⟨0, .spill 128⟩)] ∧ s.blocks = 1 ∧
    count s.called 0 = 0 ∧ count s.destroyed 0 = 0 ∧
    (step s (.invoke 0)).2 = none ∧ (step s (.invoke 1)).2 = none ∧
    (let t := runOps s [.invoke 2]
     t.objs = [(0, none), (1, none), (2, none)] ∧ t.blocks = 0 ∧
     count t.called 0 = 1 ∧ count t.destroyed 0 = 1 ∧
     (step t (.invoke 2)).2 = none ∧ (step t (.cleanup 2)).2 = none ∧
     (let u := runOps t [.drop 0, .drop 1, .drop 2]
      u.objs = [] ∧ u.blocks = 0 ∧ count u.called 0 = 1 ∧ count u.destroyed 0 = 1)) := by
  decide

/-- `cleanupNotRun` destroys without invoking; move assignment into an empty object -/
example :
    let s := runOps St.init
      [.create 8 8, .create 300 8, .mkEmpty, .moveAssign 2 1, .cleanup 2, .invoke 0]
    s.objs = [(0, none), (1, none), (2, none)] ∧ s.blocks = 0 ∧
    count s.called 0 = 1 ∧ count s.destroyed 0 = 1 ∧
    count s.called 1 = 0 ∧ count s.destroyed 1 = 1 := by
  decide

end Dispenso.OnceFn
