import DispensoVerif.Proofs.AsyncReq

/-!
# C24 — AsyncRequest: the state word is a lock around the object, values are delivered at most once

Model: `DispensoVerif/Model/AsyncReq.lean` (one model action per atomic operation of
`dispenso::AsyncRequest<T>`; field 0 = `state_`, field 1 = the stored object's tag, `-1` =
moved-from).  `proto` is the repaired class (`getUpdate` claims `kReady → kUpdating` with a CAS
before it moves the object out), `protoOld` the original one (`getUpdate` = load / move / store).
All theorems about `proto` hold for every reachable state / every finite run, any number of
threads, any interleaving.
-/
namespace Dispenso.AsyncReq
open Dispenso.Conc

/-- **C24.a** The state word is a lock around the object: at most one thread is between a
successful claiming CAS and its releasing store, and `state_ = kUpdating` exactly while one is. -/
theorem C24_mutex (s : State proto) (h : Reachable init s) :
    (∀ t u, holder (s.loc t) = true → holder (s.loc u) = true → t = u) ∧
    (s.mem 0 = 2 ↔ ∃ t, holder (s.loc t) = true) := by
  have hI := inv_reachable h
  exact ⟨hI.uniq, hI.owner, fun ⟨t, ht⟩ => hI.held t ht⟩

/-- **C24.b** `tryEmplaceUpdate` proceeds to write the object only if an update was requested
(`state_ = kNeedsUpdate`), and then holds the lock; otherwise it returns `false` and leaves the
state word alone. -/
theorem C24_emplace_only_when_requested (s s' : State proto) (h : Reachable init s) (t : TId)
    (v : Int) (hl : s.loc t = .teCas v) (he : exec s (.step t) = some s') :
    (s.mem 0 = 1 → s'.loc t = .teWrite v ∧ s'.mem 0 = 2) ∧
    (s.mem 0 ≠ 1 → s'.loc t = .done 0 0 ∧ s'.mem 0 = s.mem 0) := by
  obtain ⟨l', hs, _, hloc⟩ := exec_step_inv (inv_reachable h).np he
  generalize hm : s'.mem = m' at hs
  rw [hl] at hs
  cases hs with
  | teCasOk _ h1 => simp [hloc, h1]; rfl
  | teCasFail _ h1 => simp [hloc, h1]; rfl

/-- **C24.c** `getUpdate` never hands out a moved-from object: the value it moves out is a live
tag (`≥ 0`), and the object is moved-from afterwards. -/
theorem C24_take_is_fresh (s s' : State proto) (h : Reachable init s) (t : TId)
    (hl : s.loc t = .guTake) (he : exec s (.step t) = some s') :
    ∃ v, 0 ≤ v ∧ s.mem 1 = v ∧ s'.loc t = .guReset v ∧ s'.mem 1 = -1 := by
  have hI := inv_reachable h
  obtain ⟨l', hs, _, hloc⟩ := exec_step_inv hI.np he
  have hk := hI.locOk t
  generalize hm : s'.mem = m' at hs
  rw [hl] at hs hk
  cases hs with
  | guTake => exact ⟨s.mem 1, hk, rfl, by rw [hloc]; exact if_pos rfl, by simp⟩

/-- **C24.d** History: along every run the values taken out by `getUpdate` are a prefix of the
values put in by `tryEmplaceUpdate` (each emplaced value is returned at most once, in order, and
only after it was emplaced), at most one emplaced value is outstanding, and no moved-from object is
ever returned. -/
theorem C24_history (as : List (Act proto)) (s : State proto) (evs : List Ev)
    (h : runEvs init as = some (s, evs)) :
    takes evs <+: puts evs ∧ (puts evs).length ≤ (takes evs).length + 1 ∧
      ∀ v ∈ takes evs, 0 ≤ v := by
  have := hist_run as init s evs inv_init h
  have hp : pend init = [] := by simp [pend, init, initState, movedFrom]
  simpa only [Hist, hp, List.nil_append] using this

/-- **C24.e** Witness of the original defect: with the load-based `getUpdate` two consumers both
observe `kReady`; the first receives the emplaced value 7, the second a moved-from object. -/
theorem C24_old_double_delivery :
    ∃ (as : List (Act protoOld)) (s : State protoOld) (evs : List Ev),
      runEvs (initState protoOld L.idle (fun f => if f = 1 then movedFrom else 0)) as
        = some (s, evs) ∧ takes evs = [7, -1] := by
  refine ⟨[.call 1 L.ruCas, .step 1, .call 2 (L.teCas 7), .step 2, .step 2, .step 2,
    .call 1 L.guLoadOld, .step 1, .call 3 L.guLoadOld, .step 3, .step 1, .step 3], ?_⟩
  exact exists_of_runEvs_map (f := takes) (by decide)

/-- non-vacuity: a run of the repaired protocol in which a value is requested, emplaced and
taken -/
example : ∃ s evs,
    runEvs init [.call 1 L.ruCas, .step 1, .call 2 (L.teCas 7), .step 2, .step 2, .step 2,
      .call 1 L.guCas, .step 1, .step 1, .step 1] = some (s, evs) ∧
    (takes evs, puts evs) = ([7], [7]) :=
  exists_of_runEvs_map (f := fun evs => (takes evs, puts evs)) (by decide)

end Dispenso.AsyncReq
