import DispensoVerif.Proofs.SchedHist

/-!
# C04 — cancellation: after `cancel()` no further task body of the set starts

Model: `DispensoVerif/Model/Sched.lean`; `cancelled` = the sets whose cancel flag was stored
(`tsCancel`); `tsGuard S c site` = a cancel check of set `S` that read `c` (site 0: the package
wrapper of a queued / pool-inlined task, 1: the bulk loop, 2: `schedule()`).

* a check that reads "not cancelled" after the cancelling store is rejected, and the flag is never
  reset (`C04_no_pass_after_cancel`, `C04_cancelled_monotone`);
* every body of a set task begins only from a frame that holds a passed check
  (`C04_begin_needs_guard`), and that check is an earlier accepted `tsGuard S false _` event of the
  same thread, executed by the same call frame while `S` was not cancelled, with no other `begin_`
  of that frame in between — one passed check per body (`C04_body_after_passed_guard`).
-/
namespace Dispenso.Sched

/-- a cancel check that reads "not cancelled" after the cancelling store is impossible -/
theorem C04_no_pass_after_cancel {s : St} {t S site : Nat} (h : S ∈ s.cancelled) :
    step s t (.tsGuard S false site) = none := by
  simp [step, h]

/-- the cancel flag is never reset -/
theorem C04_cancelled_monotone {s s' : St} {t : Nat} {e : Ev} (hs : step s t e = some s')
    {S : Nat} (h : S ∈ s.cancelled) : S ∈ s'.cancelled := by
  obtain ⟨f, rest, _, hst⟩ := step_inv' hs
  cases hst
  case tsCancel set =>
    show S ∈ (if set ∈ s.cancelled then s.cancelled else set :: s.cancelled)
    split
    · exact h
    · exact List.mem_cons_of_mem _ h
  all_goals exact h

/-- … along whole traces -/
theorem C04_cancelled_monotone_run {tr : List (Nat × Ev)} {s s' : St} (hs : run s tr = some s')
    {S : Nat} (h : S ∈ s.cancelled) : S ∈ s'.cancelled :=
  run_induct (P := fun x => S ∈ x.cancelled) (fun _ _ _ _ hx hstep => C04_cancelled_monotone hstep hx)
    tr s s' h hs

/-- the body of a task of set `S ≠ 0` begins only from a frame that holds a passed cancel guard:
its package wrapper passed the guard (`guarded` / `inlGuarded`), or the call decided to run it
unpackaged after a passed check of its own set (`inlTs`) -/
theorem C04_begin_needs_guard {s s' : St} {t id S : Nat} (h : Reach s)
    (hs : step s t (.begin_ id) = some s') (hsub : (id, S) ∈ s.sub) (hS : S ≠ 0) :
    (s.top t).pend = .guarded S ∨ (s.top t).pend = .inlGuarded S ∨
      ((s.top t).pend = .inlTs ∧ (s.top t).set = S) := by
  have hI := Inv.reach h
  obtain ⟨f, rest, hs0, hst⟩ := step_inv' hs
  rw [top_eq hs0]
  have f1 := (hI.frame hs0).1
  have uniq : ∀ S', (id, S') ∈ s.sub → S' = S := fun S' h' => sub_unique hI.subNd h' hsub
  cases hst with
  | beginTook _ hb hp hsub' hq => exact absurd (uniq 0 hsub').symm hS
  | beginGuarded _ st hb hp hsub' => rw [← uniq st hsub']; exact Or.inl hp
  | beginInlPool _ hb hp hr hfq =>
    exact absurd (uniq 0 (f1 (id, 0) (by simp [hr])).1).symm hS
  | beginInlGuarded _ st hb hp hr hfq htc =>
    rw [← uniq st (f1 (id, st) (by simp [hr])).1]; exact Or.inr (Or.inl hp)
  | beginInlTs _ hb hp hr hfq =>
    exact Or.inr (Or.inr ⟨hp, uniq _ (f1 (id, f.set) (by simp [hr])).1⟩)

/-- **trace level.**  For every accepted trace `tr` (from the initial ledger, ending in `s`) that
can be continued by `(t, begin_ id)` with `id` a task of set `S ≠ 0`: `tr` contains an earlier event
`(t, tsGuard S false site)`, accepted in a state `s1` in which `S` was not cancelled, executed by
the same call frame that now begins the body — the stack of `t` had the same depth then and was
never lower in between — and with no `begin_` event of `t` at that depth in between: every body of
a set task has a passed cancel check of its own, in all three cases (`guarded S`, `inlGuarded S`:
the package wrapper's guard; `inlTs`: the check of the call that decided to run the task unpackaged
— one check never covers two bodies, since `tsInline` and every `begin_` consume it).

`end_` events of `t` in between at that frame depth are thereby excluded as well: they would pop a
body frame sitting directly on this frame, which needs a `begin_` at this depth first. -/
theorem C04_body_after_passed_guard {tr : List (Nat × Ev)} {s s' : St} {t id S : Nat}
    (hrun : run (St.init 0) tr = some s) (hs : step s t (.begin_ id) = some s')
    (hsub : (id, S) ∈ s.sub) (hS : S ≠ 0) :
    ∃ tr1 tr2 site s1 s2, tr = tr1 ++ (t, Ev.tsGuard S false site) :: tr2 ∧
      run (St.init 0) tr1 = some s1 ∧ step s1 t (.tsGuard S false site) = some s2 ∧
      S ∉ s1.cancelled ∧ (s1.stack t).length = (s.stack t).length ∧
      (∀ a b sm, tr2 = a ++ b → run s2 a = some sm → (s.stack t).length ≤ (sm.stack t).length) ∧
      (∀ a id' b sm, tr2 = a ++ (t, Ev.begin_ id') :: b →
        run s2 a = some sm → (sm.stack t).length ≠ (s.stack t).length) := by
  have hH := Hist.of_run hrun
  obtain ⟨f, rest, hs0⟩ := norm_exists (s.thr t)
  have hdepth : (s.stack t).length = rest.length + 1 := by rw [stack_eq_norm, hs0]; rfl
  have hg := C04_begin_needs_guard ⟨tr, hrun⟩ hs hsub hS
  rw [top_eq hs0] at hg
  rw [hdepth]
  refine hH t [] f rest S (by rw [hs0]; rfl) ?_
  rcases hg with hp | hp | hp
  · exact Or.inl hp
  · exact Or.inr (Or.inl hp)
  · exact Or.inr (Or.inr (Or.inl hp))

/-! ### non-vacuity -/


example : (run (St.init 0) sampleCancelTrace).map
    (fun s => (s.cancelled, s.begun, s.ended, s.skipped 1, s.outstanding 1, s.pending))
    = some ([1], [7], [7], 1, 0, 0) := rfl

/-- the prefix up to `(1, tsGuard 1 false 0)` can be continued by `(1, begin_ 7)`: the hypotheses
of the trace-level theorem are satisfiable -/
example : ((run (St.init 0) (sampleCancelTrace.take 17)).bind
    (fun s => (step s 1 (.begin_ 7)).map (fun _ => decide ((7, 1) ∈ s.sub)))) = some true := rfl

/-- after the cancel, a guard that reads "not cancelled" is rejected, so task 8 cannot begin -/
example : (run (St.init 0) (sampleCancelTrace.take 25 ++ [(1, .tsGuard 1 false 0)])).isSome
    = false := rfl
example : (run (St.init 0) (sampleCancelTrace.take 25 ++ [(1, .begin_ 8)])).isSome = false := rfl

end Dispenso.Sched
