import DispensoVerif.Proofs.OpResult
/-
C40 — `dispenso::detail::OpResult<T>`: an optional-like wrapper.  For every sequence of
constructions, copies, moves, assignments, emplacements and destructions of wrappers,
* the number of live contained objects equals the number of engaged wrappers (every contained
  object that is constructed is destroyed exactly once) — `C40_ledger`, `C40_all_destroyed`;
* each operation has the `std::optional` semantics — `C40_sem_*` (facts about `get` after one
  `step`, for every state satisfying the id-uniqueness invariant `WF`, which every reachable
  state satisfies: `C40_wf_reachable`, `C40_wf_step`);
* the original code (`stepOld`, which disengages a moved-from wrapper without destroying its
  contained object) violates the ledger — `C40_old_leaks`.
-/
namespace Dispenso.OpResult

/-! ### ledger -/

/-- live contained objects = engaged wrappers, after every operation sequence -/
theorem C40_ledger (ops : List Op) :
    (runOps step St.init ops).live = engaged (runOps step St.init ops) :=
  (Inv.init.pres_runOps ops).ledger

/-- once every wrapper has been destroyed, no contained object is alive -/
theorem C40_all_destroyed (ops : List Op) :
    (runOps step St.init ops).objs = [] → (runOps step St.init ops).live = 0 := by
  intro h
  rw [C40_ledger, engaged, h]
  rfl

/-! ### well-formedness of reachable states -/

theorem C40_wf_init : WF St.init := WF.init

theorem C40_wf_step (s : St) (h : WF s) (op : Op) : WF (step s op).1 := h.pres_step op

theorem C40_wf_reachable (ops : List Op) : WF (runOps step St.init ops) :=
  WF.init.pres_runOps ops

/-! ### optional semantics, operation by operation -/

/-- `OpResult()`: the new wrapper `s.next` is disengaged -/
theorem C40_sem_mkEmpty (s : St) (h : WF s) :
    get (step s .mkEmpty).1 s.next = some none := by
  simp only [step, stepGen]
  rw [get_append, h.get_next]; simp

/-- `OpResult(v)`: the new wrapper `s.next` holds `v` -/
theorem C40_sem_mkVal (s : St) (h : WF s) (v : Int) :
    get (step s (.mkVal v)).1 s.next = some (some v) := by
  simp only [step, stepGen]
  rw [get_append, h.get_next]; simp

/-- copy construction: the new wrapper holds the source's contents; the source keeps them -/
theorem C40_sem_copyCtor (s : St) (h : WF s) (src : Nat) (c : Option Int)
    (hsrc : get s src = some c) :
    get (step s (.copyCtor src)).1 s.next = some c ∧ get (step s (.copyCtor src)).1 src = some c := by
  simp only [step, stepGen, hsrc]
  rw [get_append, get_append, h.get_next, hsrc]; simp

/-- move construction: the new wrapper holds the source's contents; the source is disengaged -/
theorem C40_sem_moveCtor (s : St) (h : WF s) (src : Nat) (c : Option Int)
    (hsrc : get s src = some c) :
    get (step s (.moveCtor src)).1 s.next = some c ∧
    get (step s (.moveCtor src)).1 src = some none := by
  have hne : s.next ≠ src := by
    intro e; rw [← e, h.get_next] at hsrc; cases hsrc
  simp only [step, stepGen, hsrc, if_true, get_live]
  constructor
  · rw [get_set_ne _ _ _ _ hne, get_append, h.get_next]; simp
  · rw [get_set_self, get_append, hsrc]; simp

/-- copy assignment (`dst ≠ src`): `dst` takes the source's contents; the source keeps them -/
theorem C40_sem_copyAssign (s : St) (dst src : Nat) (d c : Option Int) (hne : dst ≠ src)
    (hdst : get s dst = some d) (hsrc : get s src = some c) :
    get (step s (.copyAssign dst src)).1 dst = some c ∧
    get (step s (.copyAssign dst src)).1 src = some c := by
  simp only [step, stepGen, hdst, hsrc, if_neg hne]
  constructor
  · rw [get_set_self, get_live, hdst]; rfl
  · rw [get_set_ne _ _ _ _ (Ne.symm hne), get_live, hsrc]

/-- move assignment (`dst ≠ src`): `dst` takes the source's contents; the source is disengaged -/
theorem C40_sem_moveAssign (s : St) (dst src : Nat) (d c : Option Int) (hne : dst ≠ src)
    (hdst : get s dst = some d) (hsrc : get s src = some c) :
    get (step s (.moveAssign dst src)).1 dst = some c ∧
    get (step s (.moveAssign dst src)).1 src = some none := by
  simp only [step, stepGen, hdst, hsrc, if_neg hne, if_true, get_live]
  constructor
  · rw [get_set_ne _ _ _ _ hne, get_set_self, get_live, hdst]; rfl
  · rw [get_set_self, get_set_ne _ _ _ _ (Ne.symm hne), get_live, hsrc]; rfl

/-- self copy-assignment leaves the whole state unchanged -/
theorem C40_sem_copyAssign_self (s : St) (o : Nat) : (step s (.copyAssign o o)).1 = s := by
  simp only [step, stepGen]
  split
  · simp
  · rfl

/-- self move-assignment leaves the whole state unchanged -/
theorem C40_sem_moveAssign_self (s : St) (o : Nat) : (step s (.moveAssign o o)).1 = s := by
  simp only [step, stepGen]
  split
  · simp
  · rfl

/-- `emplace(v)`: the wrapper holds `v`, whatever it held before -/
theorem C40_sem_emplace (s : St) (dst : Nat) (d : Option Int) (v : Int)
    (hdst : get s dst = some d) :
    get (step s (.emplace dst v)).1 dst = some (some v) := by
  simp only [step, stepGen, hdst]
  rw [get_set_self, get_live, hdst]; rfl

/-- destruction: the wrapper no longer exists -/
theorem C40_sem_destroy (s : St) (o : Nat) : get (step s (.destroy o)).1 o = none := by
  simp only [step, stepGen]
  split
  · rw [get_filter]; simp
  · next hn => exact hn

/-- observers change nothing -/
theorem C40_sem_query (s : St) (o : Nat) : (step s (.query o)).1 = s := by
  simp only [step, stepGen]
  split <;> rfl

/-- an operation on an unknown wrapper is rejected and changes nothing -/
theorem C40_sem_rejected (s : St) (op : Op) (h : (step s op).2 = none) : (step s op).1 = s := by
  cases op <;> simp only [step, stepGen] at h ⊢ <;> (try (simp [out] at h; done)) <;>
    split at h <;> (try split at h) <;> simp_all [out]

/-- the wrapper ids an operation may write (create, modify or remove) in state `s` -/
def writes (s : St) : Op → List Nat
  | .mkEmpty => [s.next]
  | .mkVal _ => [s.next]
  | .copyCtor _ => [s.next]
  | .moveCtor src => [s.next, src]
  | .copyAssign dst _ => [dst]
  | .moveAssign dst src => [dst, src]
  | .emplace dst _ => [dst]
  | .destroy o => [o]
  | .query _ => []

/-- frame: every other wrapper keeps its contents (and every other id stays absent) -/
theorem C40_sem_frame (s : St) (op : Op) (o : Nat) (ho : o ∉ writes s op) :
    get (step s op).1 o = get s o := by
  cases op with
  | mkEmpty =>
    simp only [writes, List.mem_singleton] at ho
    simp only [step, stepGen]
    rw [get_append, if_neg (Ne.symm ho)]; simp
  | mkVal v =>
    simp only [writes, List.mem_singleton] at ho
    simp only [step, stepGen]
    rw [get_append, if_neg (Ne.symm ho)]; simp
  | copyCtor src =>
    simp only [writes, List.mem_singleton] at ho
    simp only [step, stepGen]
    split
    · rfl
    · rw [get_append, if_neg (Ne.symm ho)]; simp
  | moveCtor src =>
    simp only [writes, List.mem_cons, List.not_mem_nil, or_false, not_or] at ho
    simp only [step, stepGen]
    split
    · rfl
    · simp only [if_true, get_live]
      rw [get_set_ne _ _ _ _ ho.2, get_append, if_neg (Ne.symm ho.1)]; simp
  | copyAssign dst src =>
    simp only [writes, List.mem_singleton] at ho
    simp only [step, stepGen]
    split
    · split
      · rfl
      · rw [get_set_ne _ _ _ _ ho, get_live]
    · rfl
  | moveAssign dst src =>
    simp only [writes, List.mem_cons, List.not_mem_nil, or_false, not_or] at ho
    simp only [step, stepGen]
    split
    · split
      · rfl
      · simp only [if_true, get_live]
        rw [get_set_ne _ _ _ _ ho.2, get_set_ne _ _ _ _ ho.1, get_live]
    · rfl
  | emplace dst v =>
    simp only [writes, List.mem_singleton] at ho
    simp only [step, stepGen]
    split
    · rw [get_set_ne _ _ _ _ ho, get_live]
    · rfl
  | destroy o' =>
    simp only [writes, List.mem_singleton] at ho
    simp only [step, stepGen]
    split
    · rw [get_filter, if_neg ho]
    · rfl
  | query o' =>
    simp only [step, stepGen]
    split <;> rfl

/-! ### the original code leaks -/

/-- the original move constructor: all wrappers destroyed, one contained object still alive -/
theorem C40_old_leaks :
    (runOps stepOld St.init [.mkVal 7, .moveCtor 0, .destroy 0, .destroy 1]).live = 1 ∧
    (runOps stepOld St.init [.mkVal 7, .moveCtor 0, .destroy 0, .destroy 1]).objs = [] := by
  decide

/-- the original move assignment leaks in the same way -/
theorem C40_old_leaks_assign :
    (runOps stepOld St.init [.mkVal 7, .mkEmpty, .moveAssign 1 0, .destroy 0, .destroy 1]).live = 1 ∧
    (runOps stepOld St.init [.mkVal 7, .mkEmpty, .moveAssign 1 0, .destroy 0, .destroy 1]).objs = [] := by
  decide

/-! ### concrete runs (repaired code) -/

example :
    (runOps step St.init [.mkVal 7, .moveCtor 0, .destroy 0, .destroy 1]).live = 0 ∧
    (runOps step St.init [.mkVal 7, .moveCtor 0, .destroy 0, .destroy 1]).objs = [] := by
  decide

example :
    let s := runOps step St.init
      [.mkVal 7, .mkEmpty, .copyCtor 0, .moveAssign 1 0, .emplace 0 9, .copyAssign 2 1, .destroy 1]
    s.objs = [(0, some 9), (2, some 7)] ∧ s.live = 2 ∧ engaged s = 2 := by
  decide

end Dispenso.OpResult
