import DispensoVerif.Proofs.FutureRun
import DispensoVerif.Proofs.FutureWake

/-!
# C18 — a Future's functor runs once and every getter sees its result

Model: `DispensoVerif/Model/Future.lean` — the shared state of a `dispenso::Future`
(`detail::FutureImplBase<Result>`) at one model action per atomic operation / futex call:
`status_` (field 0: 0 kNotStarted, 1 kRunning, 2 kReady), `refCount_` (1), the functor's invocation
counter (2), the `Result` object in `resultBuf_` (3: 0 not constructed, `cfg.val` constructed,
-3 destroyed), the task set's outstanding count (4), the ghost token of the scheduled closure (5),
`exception_` (6), the ghost "deallocated" flag (7).  `futProto cfg` runs in the generic interleaving
semantics `Core/Conc.lean`: any number of threads, any schedule, spurious wake-ups, time-outs.
`futInit cfg hs now` is a freshly created and scheduled future whose thread `t` owns `hs[t]` handles
(`refCount_ = Σ hs + 1`, the `+1` being the scheduled closure).  The client contract is part of the
protocol (`futEntry`): `wait`/`get`/`wait_for`/`wait_until`/`is_ready`/copy are called through an
owned handle, destroying a handle gives it up, the closure is invoked by whoever takes its token.

All theorems hold for every reachable state, i.e. for every interleaving, whether the pool (the
closure) or a waiter (`waitCommon` inline) ends up running the functor.
-/
namespace Dispenso.Future
open Dispenso.Conc

/-- a Future: the completed status is `kReady = 2` -/
def IsFut (cfg : Cfg) : Prop := cfg.c = 2

/-- **C18.a** The functor is invoked at most once in every interleaving: its invocation counter is
0 or 1 in every reachable state, and at most one thread is ever inside `run(int)` (between the
winning CAS `kNotStarted → kRunning` and the end of `tryExecuteThenChain`). -/
theorem C18_functor_at_most_once (cfg : Cfg) (hc : IsFut cfg) (hs : List Nat) (now : Int)
    (s : State (futProto cfg)) (h : Reachable (futInit cfg hs now) s) :
    (s.mem 2 = 0 ∨ s.mem 2 = 1) ∧
    (∀ t u, inFn (s.loc t).pc = true → inFn (s.loc u).pc = true → t = u) := by
  have I := (inv_reachable hc h).2
  exact ⟨I.rn, I.uq⟩

/-- **C18.b** Exactly once by the time anybody observes readiness: whenever the status is `kReady`
the functor has run exactly once, and as long as a reference exists (`refCount_ ≠ 0`) its outcome
is in place — the exception flag if it threw, otherwise the `Result` object with the functor's
tag.  Before the first CAS (`kNotStarted`) it has not run. -/
theorem C18_ready_means_ran_once (cfg : Cfg) (hc : IsFut cfg) (hs : List Nat) (now : Int)
    (s : State (futProto cfg)) (h : Reachable (futInit cfg hs now) s) :
    (s.mem 0 = 2 → s.mem 2 = 1 ∧ (s.mem 1 ≠ 0 → resOK cfg s.mem)) ∧
    (s.mem 0 = 0 → s.mem 2 = 0) := by
  have I := (inv_reachable hc h).2
  refine ⟨fun h2 => ?_, fun h0 => (I.z h0).1⟩
  obtain ⟨a, b⟩ := I.rd h2
  refine ⟨a, fun h1 => ?_⟩
  rcases b with b | b
  · exact b
  · exact absurd b h1

/-- **C18.c** No waiter returns early, whoever ran the functor: a thread whose `wait()` has returned
(`wdone`), whose `get()` has returned (`gdone`) or whose `wait_for`/`wait_until` has returned
`ready` (`tdone 1`) sees the status `kReady` and the functor's counter at exactly 1; a thread
between the `wait()` part and the `result()` part of `get()` likewise. -/
theorem C18_waiter_returns_after_ready (cfg : Cfg) (hc : IsFut cfg) (hs : List Nat) (now : Int)
    (s : State (futProto cfg)) (h : Reachable (futInit cfg hs now) s) (t : TId) :
    ((s.loc t).pc = .wdone ∨ (∃ r, (s.loc t).pc = .gdone r) ∨ (∃ lb, (s.loc t).pc = .tdone 1 lb) ∨
      (s.loc t).pc = .gtExc ∨ (s.loc t).pc = .gtLoad) →
    s.mem 0 = 2 ∧ s.mem 2 = 1 := by
  have I := (inv_reachable hc h).2
  intro hp
  have h2 : s.mem 0 = 2 := by
    have hl := I.lc t
    rcases hp with hp | ⟨r, hp⟩ | ⟨lb, hp⟩ | hp | hp <;> rw [hp] at hl
    · exact hl
    · exact hl.1
    · exact hl rfl
    · exact hl
    · exact hl.1
  exact ⟨h2, (I.rd h2).1⟩

/-- **C18.d** Every `get()` returns the same result: in every reachable state a thread whose `get()`
has returned holds the tag of the one `Result` object the functor constructed (`cfg.val`), or -1
(= rethrew the stored exception) iff the functor threw — independent of the thread and of who
ran the functor. -/
theorem C18_get_same_result (cfg : Cfg) (hc : IsFut cfg) (hs : List Nat) (now : Int)
    (s : State (futProto cfg)) (h : Reachable (futInit cfg hs now) s) (t : TId) (r : Int)
    (hp : (s.loc t).pc = .gdone r) : r = if cfg.throws then -1 else cfg.val := by
  have hl := (inv_reachable hc h).2.lc t
  rw [hp] at hl
  exact hl.2

/-- … and the value it reads is read from the live object: while a thread is about to read the
result (`gtLoad`) the object in `resultBuf_` carries the functor's tag (it has not been destroyed,
because the reader's handle keeps `refCount_` positive). -/
theorem C18_get_reads_live_object (cfg : Cfg) (hc : IsFut cfg) (hs : List Nat) (now : Int)
    (s : State (futProto cfg)) (h : Reachable (futInit cfg hs now) s) (t : TId)
    (hp : (s.loc t).pc = .gtLoad) : s.mem 3 = cfg.val ∧ s.mem 6 = 0 ∧ 1 ≤ s.mem 1 := by
  obtain ⟨R, I⟩ := inv_reachable hc h
  have hl := I.lc t
  rw [hp] at hl
  have h1 : 1 ≤ s.mem 1 := R.handle_ref (u := t) (by rw [hp]; rfl)
  rcases (I.rd hl.1).2 with hr | hr
  · unfold resOK at hr
    rw [hl.2] at hr
    simp at hr
    exact ⟨hr.2, hr.1, h1⟩
  · omega

/-- **C18.e** Reference counting: `refCount_` always equals the number of live handles plus the
references in flight (the closure's reference until its `decRefCountMaybeDestroy`, a handle being
destroyed) plus 1 while the closure has not been invoked; `dealloc()` is entered only by the thread
whose decrement took the count to zero, by at most one thread, at most once. -/
theorem C18_refcount (cfg : Cfg) (hs : List Nat) (now : Int)
    (s : State (futProto cfg)) (h : Reachable (futInit cfg hs now) s) :
    s.mem 1 = s.mem 5 + (wsum (cfg := cfg) (e := futEntry cfg) s : Int) ∧
    (∀ t, inDealloc (s.loc t).pc = true → s.mem 1 = 0 ∧ s.mem 7 = 0) ∧
    (∀ t u, inDealloc (s.loc t).pc = true → inDealloc (s.loc u).pc = true → t = u) ∧
    (s.mem 7 = 0 ∨ (s.mem 7 = 1 ∧ s.mem 1 = 0 ∧ ∀ t, inDealloc (s.loc t).pc = false)) := by
  have R := invR_reachable h
  exact ⟨R.sum, R.dz, R.du, R.fr⟩

theorem kn_or (k : K) : kNeeds k = true ∨ kw k = 1 := by cases k <;> simp [kNeeds, kw]

/-- a thread at an operation on the shared state, outside `dealloc()`, holds a reference -/
theorem touches_w {pc : PC} {n : Nat} (ht : touches pc = true) (hd : inDealloc pc = false)
    (hh : needsHandle pc = true → 1 ≤ n) : 1 ≤ w ⟨n, pc⟩ := by
  have hc : needsHandle pc = true ∨ pcw pc = 1 := by
    cases pc <;> simp [touches, inDealloc] at ht hd <;> simp only [needsHandle, pcw] <;>
      first | exact kn_or _ | simp
  unfold w
  rcases hc with h | h
  · have := hh h; simp only; omega
  · simp only; omega

/-- **C18.f** No use after free, for any order of handle drops and completion: once `dealloc()` has
completed no thread is at an operation on the shared state, no thread owns a handle, and the
closure has been invoked; and a thread at an operation on the shared state (other than the
deallocating thread itself) keeps `refCount_ ≥ 1`. -/
theorem C18_no_use_after_free (cfg : Cfg) (hs : List Nat) (now : Int)
    (s : State (futProto cfg)) (h : Reachable (futInit cfg hs now) s) :
    (s.mem 7 = 1 → s.mem 5 = 0 ∧ ∀ t, touches (s.loc t).pc = false ∧ (s.loc t).h = 0) ∧
    (∀ t, touches (s.loc t).pc = true → inDealloc (s.loc t).pc = false → 1 ≤ s.mem 1) := by
  have R := invR_reachable h
  have key : ∀ t, touches (s.loc t).pc = true → inDealloc (s.loc t).pc = false → 1 ≤ s.mem 1 := by
    intro t ht hd
    have hth : t ∈ s.threads := R.inThreads (fun hl => by rw [hl] at ht; cases ht)
    have hw := R.w_le hth
    have hh := R.hh t
    have : 1 ≤ w (s.loc t) := touches_w (n := (s.loc t).h) ht hd hh
    omega
  refine ⟨fun h7 => ?_, key⟩
  rcases R.fr with h0 | ⟨_, h1, hno⟩
  · omega
  have hcl := R.cl
  have hsum := R.sum
  refine ⟨by omega, fun t => ?_⟩
  have ht : touches (s.loc t).pc = false := by
    cases hx : touches (s.loc t).pc
    · rfl
    · have := key t hx (hno t); omega
  refine ⟨ht, ?_⟩
  by_cases hth : t ∈ s.threads
  · have hw := R.w_le hth
    have : (s.loc t).h ≤ w (s.loc t) := by unfold w; omega
    omega
  · rw [(R.out t hth).1]

/-- **C18.g** Task-set futures: the set's outstanding count is decremented exactly once, after the
status became `kReady` (so `TaskSet::wait()` — which returns after loading 0 — implies
`is_ready()`): this future's contribution is 1 until the decrement and 0 afterwards, 0 implies
`kReady`, and the thread about to decrement has already stored `kReady`. -/
theorem C18_taskset_counter (cfg : Cfg) (hc : IsFut cfg) (ht : cfg.hasTsc = true) (hs : List Nat)
    (now : Int) (s : State (futProto cfg)) (h : Reachable (futInit cfg hs now) s) :
    (s.mem 4 = 1 ∨ (s.mem 4 = 0 ∧ s.mem 0 = 2)) ∧
    (∀ t k, (s.loc t).pc = .tsSub k → s.mem 0 = 2 ∧ s.mem 4 = 1) := by
  have I := (inv_reachable hc h).2
  refine ⟨I.tz ht, fun t k hp => ?_⟩
  have hl := I.lc t
  rw [hp] at hl
  exact ⟨hl, I.tf ht t (by rw [hp]; rfl)⟩

/-- **C18.h** No waiter is left behind: once the status is `kReady`, either no thread is parked in a
futex wait on it, or a thread that is not itself blocked is about to issue the wake-all of
`notify(kReady)`; so when the thread that completed the future has returned from `notify`, every
`wait()`/`get()`/timed wait can proceed (fewer than 2^31 threads). -/
theorem C18_no_lost_wakeup (cfg : Cfg) (hc : IsFut cfg) (hs : List Nat) (now : Int)
    (s : State (futProto cfg)) (h : Reachable (futInit cfg hs now) s)
    (hn : s.threads.length < intMax) (hr : s.mem 0 = 2) :
    (∀ u, s.parked u = none) ∨ ∃ t k, (s.loc t).pc = .ntWake k ∧ s.parked t = none := by
  rcases wakeOK_reachable hc h hn (by rw [hr]; exact hc.symm) with h1 | ⟨t, ht, hp⟩
  · exact Or.inl h1
  · right
    generalize hl : (s.loc t).pc = pc at ht
    cases pc <;> simp [isWake] at ht
    exact ⟨t, _, hl, hp⟩

/-! ### non-vacuity: concrete runs of the model -/

def exCfg : Cfg := { c := 2, val := 7, throws := false, hasTsc := true, allowInline := true }

/-- the memory fields of the model and the control state of thread 1 -/
def exView (s : State (futProto exCfg)) : List Int × PC :=
  ([s.mem 0, s.mem 1, s.mem 2, s.mem 3, s.mem 4, s.mem 7], (s.loc 1).pc)

/-- a waiter (thread 1) wins the CAS, runs the functor inline, returns from `get()` with the tag 7;
the closure (thread 2) loses the CAS and drops its reference; thread 0 destroys its handle; thread 1
destroys the last handle and deallocates: status ready, count 0, counter 1, result destroyed,
task-set count 0, freed -/
example :
    ((run (futInit exCfg [1, 1] 0)
      [.call 1 ⟨1, .wcLoad .get true⟩, .step 1, .step 1,            -- load 0, CAS wins
       .call 2 ⟨0, .rnTake⟩, .step 2, .step 2, .step 2,              -- closure: token, CAS loses, decRef
       .step 1, .step 1, .step 1, .wake 1 [], .step 1,               -- functor, store, notify, tsc
       .step 1, .step 1,                                             -- result(): exception?, load
       .call 0 ⟨0, .rcSub⟩, .step 0,
       .call 1 ⟨0, .rcSub⟩, .step 1, .step 1, .step 1, .step 1]).map exView)
    = some ([2, 0, 1, -3, 0, 1], .done 0) := by decide

/-- the state right after `get()` returned in that run: thread 1 holds `gdone 7` -/
example :
    ((run (futInit exCfg [1, 1] 0)
      [.call 1 ⟨1, .wcLoad .get true⟩, .step 1, .step 1,
       .step 1, .step 1, .step 1, .wake 1 [], .step 1, .step 1, .step 1]).map exView)
    = some ([2, 3, 1, 7, 0, 0], .gdone 7) := by decide

end Dispenso.Future
