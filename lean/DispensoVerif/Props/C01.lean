import DispensoVerif.Proofs.SchedCount

/-!
# C01 — every task handed to the pool runs exactly once

Model: `DispensoVerif/Model/Sched.lean`.  `sub` = the `(id, set)` pairs submitted (`set = 0`: handed
to the pool directly), `begun` / `ended` = the ids whose body began / ended.

* `C01_at_most_once`: no body begins twice, only submitted tasks begin, only begun bodies end.
* `C01_quiescent_count`: at a quiescent point every submitted task of a set has begun or was
  skipped / dropped because of cancellation (counting form, every set including the pool itself).
* `C01_exactly_once`: once `~ThreadPool` has finished (`destroyed`), every task handed to the pool
  directly has begun and ended — with `C01_at_most_once`: exactly once.  `C01_exactly_once_at_dtor`
  / `C01_count_at_dtor`: the same at the `dtorEnd` event itself, and the counting form for set tasks.

History: with an earlier version of the ledger the statement `C01_exactly_once` was false (and was
refuted here) for two reasons: `gen` did not check `destroyed` (a bulk call open and settled on
another thread could generate a task after `dtorEnd`), and the task-set drop path
`tsGuard 0 true 2` was accepted for set 0 (incrementing `dropped 0`).  The ledger now rejects both
(`gen` requires `¬ destroyed`; the call-site cancel checks and `tsInline` require `set ≠ 0`), see
the two rejected traces at the end; `dropped 0 = 0` and `skipped 0 = 0` are invariants.
-/
namespace Dispenso.Sched

/-- no body begins twice or ends twice; only submitted tasks begin; only begun bodies end -/
theorem C01_at_most_once {s : St} (h : Reach s) :
    s.begun.Nodup ∧ s.ended.Nodup ∧ (∀ id ∈ s.begun, ∃ S, (id, S) ∈ s.sub) ∧
      (∀ id ∈ s.ended, id ∈ s.begun) := by
  have hI := Inv.reach h
  refine ⟨hI.begNd, ?_, hI.begSub, ?_⟩
  · refine nodup_of_count_le hI.begNd fun i => ?_
    have := hI.runs i
    omega
  · intro i hi
    have := hI.runs i
    have := List.count_pos_iff.2 hi
    exact List.count_pos_iff.1 (by omega)

/-- `~ThreadPool` only finishes when nothing is queued and no call owes anything -/
theorem C01_dtor_end_empty {s s' : St} {t : Nat} (hs : step s t .dtorEnd = some s') :
    s.tierItems = [] ∧ ∀ f ∈ allFrames s, f.settled = true ∧ f.kind ≠ .run := by
  obtain ⟨f, rest, _, hst⟩ := step_inv' hs
  cases hst with
  | dtorEnd hk hq => exact (quiescent_iff s).1 hq

/-- at a quiescent point, for every set `S` (0 = the pool): every submitted task has begun, or
was skipped by the package wrapper / dropped by `schedule` on a cancelled set -/
theorem C01_quiescent_count {s : St} (h : Reach s) (hq : s.quiescent = true) (S : Nat) :
    (s.sub.filter (fun p => p.2 = S)).length
      = (s.begun.filter (fun id => (id, S) ∈ s.sub)).length + s.skipped S + s.dropped S :=
  (Inv.reach h).quiescent_count hq S

/-- the pool itself never skips or drops a task: set 0 has no package wrapper and no cancel path -/
theorem C01_pool_never_drops {s : St} (h : Reach s) : s.skipped 0 = 0 ∧ s.dropped 0 = 0 :=
  ⟨(Inv.reach h).skip0, (Inv.reach h).drop0⟩

/-- at a quiescent point every task handed to the pool directly has begun and ended -/
theorem C01_quiescent_all_ran {s : St} (h : Reach s) (hq : s.quiescent = true) (id : Nat)
    (hid : (id, 0) ∈ s.sub) : id ∈ s.begun ∧ id ∈ s.ended :=
  (Inv.reach h).quiescent_all_ran hq id hid

/-- **exactly once**: by the time `~ThreadPool` has returned, every task handed to the pool
directly has begun and ended (and, by `C01_at_most_once`, did so once) -/
theorem C01_exactly_once {s : St} (h : Reach s) (hd : s.destroyed = true) :
    ∀ id, (id, 0) ∈ s.sub → id ∈ s.begun ∧ id ∈ s.ended :=
  AllRan.reach h hd

/-- when `~ThreadPool` finishes (the `dtorEnd` event), every task handed to the pool directly has
run exactly once -/
theorem C01_exactly_once_at_dtor {s s' : St} {t : Nat} (h : Reach s)
    (hs : step s t .dtorEnd = some s') :
    s'.destroyed = true ∧ ∀ id, (id, 0) ∈ s'.sub → id ∈ s'.begun ∧ id ∈ s'.ended := by
  obtain ⟨f, rest, _, hst⟩ := step_inv' hs
  cases hst with
  | dtorEnd hk hq => exact ⟨rfl, fun id hid => C01_quiescent_all_ran h hq id hid⟩

/-- … and for the tasks of every set, the counting form at destruction -/
theorem C01_count_at_dtor {s s' : St} {t : Nat} (h : Reach s)
    (hs : step s t .dtorEnd = some s') (S : Nat) :
    (s'.sub.filter (fun p => p.2 = S)).length
      = (s'.begun.filter (fun id => (id, S) ∈ s'.sub)).length + s'.skipped S + s'.dropped S := by
  obtain ⟨f, rest, _, hst⟩ := step_inv' hs
  cases hst with
  | dtorEnd hk hq => exact C01_quiescent_count h hq S

/-- no submission is accepted once the pool is destroyed -/
theorem C01_no_submission_after_dtor {s : St} (t set id : Nat) (fq : Bool)
    (hd : s.destroyed = true) :
    step s t (.callSched set id fq) = none ∧ step s t (.callBulk set fq) = none ∧
      step s t (.gen id) = none := by
  simp [step, hd]

/-! ### non-vacuity, and the two formerly accepted counterexample traces -/

/-- an accepted trace ending with the destruction of the pool: task 7 began and ended once -/
example : (run (St.init 0) sampleTrace).map
    (fun s => (s.destroyed, s.quiescent, s.sub, s.begun, s.ended, s.dropped 0))
    = some (true, true, [(7, 0)], [7], [7], 0) := rfl

/-- formerly counterexample 1 (a bulk call open on thread 1 generates task 5 after the pool was
destroyed): the `gen` is now rejected, the prefix before it is accepted -/
example : (run (St.init 0) cexGenAfterDtor).isSome = false := rfl
example : (run (St.init 0) cexGenAfterDtor.dropLast).map (fun s => (s.destroyed, s.sub))
    = some (true, []) := rfl

/-- formerly counterexample 2 (the task-set drop path taken for the pool itself, set 0): the
`tsGuard 0 true 2` is now rejected -/
example : (run (St.init 0) cexDropSet0).isSome = false := rfl
example : (run (St.init 0) (cexDropSet0.take 5)).isSome = false := rfl
example : (run (St.init 0) (cexDropSet0.take 4)).isSome = true := rfl

end Dispenso.Sched
