import DispensoVerif.Proofs.Mpmc

/-!
# C34 — `MpmcRingBuffer`: bounded, exclusive slot ownership, elements neither lost nor duplicated

Model: `DispensoVerif/Model/Mpmc.lean` (one action per atomic operation of the C++), semantics
`Conc.exec` (any interleaving, any number of threads).  `K ≥ 2` is the buffer size
(`static_assert(Capacity >= 2)` in the header; for `K = 1` the properties are false, see the
example at the end).  Every theorem is for every state reachable from `init K`.
-/
namespace Dispenso.Mpmc
open Dispenso.Conc

/-- 1. `0 ≤ head ≤ tail ≤ head + K`: never more than `K` positions claimed and not yet popped. -/
theorem C34_bounds (K : Nat) (hK : 2 ≤ K) (s : State (proto K)) (h : Reachable (init K) s) :
    0 ≤ s.mem 0 ∧ s.mem 0 ≤ s.mem 1 ∧ s.mem 1 ≤ s.mem 0 + K :=
  (SInv.reachable hK h).2.1.bnd

/-- 2. two distinct threads never own the same position, and no position is owned by a producer
and a consumer at once. -/
theorem C34_claim_unique (K : Nat) (hK : 2 ≤ K) (s : State (proto K))
    (h : Reachable (init K) s) :
    (∀ t u p, ownsPush (s.loc t) p → ownsPush (s.loc u) p → t = u) ∧
    (∀ t u p, ownsPop (s.loc t) p → ownsPop (s.loc u) p → t = u) ∧
    (∀ t u p, ownsPush (s.loc t) p → ownsPop (s.loc u) p → False) := by
  have c := (SInv.reachable hK h).2.1
  refine ⟨c.upush, c.upop, fun t u p h1 h2 => ?_⟩
  have := c.opush t p h1
  have := c.opop u p h2
  omega

/-- 2'. stronger: two owned positions never even share a slot -/
theorem C34_slot_exclusive (K : Nat) (hK : 2 ≤ K) (s : State (proto K))
    (h : Reachable (init K) s) (t u : TId) (p q : Int)
    (h1 : ownsPush (s.loc t) p ∨ ownsPop (s.loc t) p)
    (h2 : ownsPush (s.loc u) q ∨ ownsPop (s.loc u) q)
    (hw : wrapIdx K p = wrapIdx K q) : p = q ∧ t = u :=
  (SInv.reachable hK h).2.1.own_slot_unique (by omega) h1 h2 hw

/-- life-cycle facts about owned positions: a push owner's position is in `[head, tail)` with the
slot still marked Ready for it; a pop owner's position is below `head`, its slot not yet handed to
the next lap (`tail ≤ p + K`), and still marked Full. -/
theorem C34_owner_state (K : Nat) (hK : 2 ≤ K) (s : State (proto K))
    (h : Reachable (init K) s) (t : TId) (p : Int) :
    (ownsPush (s.loc t) p → s.mem 0 ≤ p ∧ p < s.mem 1 ∧ s.mem (seqF K p) = p) ∧
    (ownsPop (s.loc t) p →
      s.mem 1 - K ≤ p ∧ 0 ≤ p ∧ p < s.mem 0 ∧ s.mem (seqF K p) = p + 1) :=
  ⟨(SInv.reachable hK h).2.1.opush t p, (SInv.reachable hK h).2.1.opop t p⟩

/-- 3(a). a consumer that won the head CAS for `h` finds the slot Full for `h` holding a real
element (never the moved-from marker). -/
theorem C34_pop_gets_pushed_value (K : Nat) (hK : 2 ≤ K) (s : State (proto K))
    (h : Reachable (init K) s) (t : TId) (x : Int) (hl : s.loc t = L.oTake x) :
    s.mem (seqF K x) = x + 1 ∧ 0 ≤ s.mem (dataF K x) := by
  have i := SInv.reachable hK h
  have h1 := i.2.1.opop t x (by show ownsPop (s.loc t) x; rw [hl]; simp [ownsPop])
  have h2 := i.2.2 t
  rw [hl] at h2
  exact ⟨h1.2.2.2, h2⟩

/-- 3(b), first half. only the owner of a position whose slot is `i % K` ever changes
`data[i % K]`. -/
theorem C34_data_written_by_owner (K : Nat) (hK : 2 ≤ K) (s s' : State (proto K))
    (h : Reachable (init K) s) (t : TId) (i : Int)
    (he : exec s (.step t) = some s') (hne : s'.mem (dataF K i) ≠ s.mem (dataF K i)) :
    ∃ p, (ownsPush (s.loc t) p ∨ ownsPop (s.loc t) p) ∧ wrapIdx K p = wrapIdx K i := by
  have hinv := (SInv.reachable hK h).2.2 t
  by_cases hp : s.parked t = none
  · cases hl : s.loc t <;> simp [exec, hp, proto, op, cont, memEffect, hl] at he
    case eCas v p =>
      by_cases hc : s.mem 1 = p <;> simp [hc] at he <;> cases he <;> simp [setLoc, setMem] at hne
    case oCas x =>
      by_cases hc : s.mem 0 = x <;> simp [hc] at he <;> cases he <;> simp [setLoc, setMem] at hne
    case bCas vs p n =>
      by_cases hc : s.mem 1 = p <;> simp [hc] at he <;> cases he <;> simp [setLoc, setMem] at hne
    case eWrite v p =>
      cases he; simp [setLoc, setMem] at hne
      exact ⟨p, Or.inl (by simp [ownsPush]), hne.1.symm⟩
    case bWrite vs p j n =>
      cases he; simp [setLoc, setMem] at hne
      rw [hl] at hinv
      have hjn : j < n := hinv.2.1
      exact ⟨p + j, Or.inl (by simp only [ownsPush]; omega), hne.1.symm⟩
    case oTake x =>
      cases he; simp [setLoc, setMem] at hne
      exact ⟨x, Or.inr (by simp [ownsPop]), hne.1.symm⟩
    all_goals (cases he; simp [setLoc, setMem] at hne)
  · simp [exec, hp] at he

/-- 3(b), second half. while position `p` is Full (published by its producer, not yet claimed by a
consumer) its slot holds a real element and *nobody* owns any position of that slot, so by
`C34_data_written_by_owner` nothing can overwrite the element; the next change of `data[p % K]`
is the exchange of the consumer that claims `p` (`C34_pop_gets_pushed_value`, and
`C34_slot_exclusive` while that consumer owns `p`). -/
theorem C34_full_unowned (K : Nat) (hK : 2 ≤ K) (s : State (proto K))
    (h : Reachable (init K) s) (p : Int) (h1 : s.mem 0 ≤ p) (h2 : p < s.mem 1)
    (hs : s.mem (seqF K p) = p + 1) :
    0 ≤ s.mem (dataF K p) ∧
    ∀ t q, ownsPush (s.loc t) q ∨ ownsPop (s.loc t) q → wrapIdx K q ≠ wrapIdx K p := by
  have c := (SInv.reachable hK h).2.1
  have b := c.bnd
  refine ⟨by have := c.live p h1 h2; omega, fun t q ho hw => ?_⟩
  have w := c.own_win ho
  have e : q = p := wrap_inj (K := K) (by omega) hw (by omega) (by omega)
  subst e
  rcases ho with ho | ho
  · have := c.opush _ _ ho; omega
  · have := c.opop _ _ ho; omega

/-- 5. the stale validation of a batch is still true at its CAS: if the tail CAS of a thread at
`bCas vs p n` is about to succeed (`tail = p`), every slot `(p + i) % K`, `i < n`, is still Ready
for `p + i`, nobody owns it, and the claim keeps `tail ≤ head + K`. -/
theorem C34_batch_claims_validated (K : Nat) (hK : 2 ≤ K) (s : State (proto K))
    (h : Reachable (init K) s) (t : TId) (vs : List Int) (p : Int) (n : Nat)
    (hl : s.loc t = L.bCas vs p n) (hc : s.mem 1 = p) :
    (∀ i : Nat, i < n → s.mem (seqF K (p + i)) = p + i ∧
      ∀ u q, ownsPush (s.loc u) q ∨ ownsPop (s.loc u) q → wrapIdx K q ≠ wrapIdx K (p + i)) ∧
    1 ≤ n ∧ p + n ≤ s.mem 0 + K := by
  have i := SInv.reachable hK h
  have h2 := i.2.2 t
  rw [hl] at h2
  obtain ⟨a, b, b', c, d⟩ := h2
  have hk := a.2.2
  have hr : ∀ j : Nat, j < n → _ := fun j hj =>
    i.2.1.ready_ahead hK (p := p + j) (by omega) (by omega) (d hc (p + j) (by omega) (by omega))
  refine ⟨fun j hj => ⟨d hc (p + j) (by omega) (by omega), (hr j hj).2⟩, b, ?_⟩
  have := (hr (n - 1) (by omega)).1
  omega

/-- 5'. the same for the single-element push -/
theorem C34_push_claim_validated (K : Nat) (hK : 2 ≤ K) (s : State (proto K))
    (h : Reachable (init K) s) (t : TId) (v p : Int)
    (hl : s.loc t = L.eCas v p) (hc : s.mem 1 = p) :
    s.mem (seqF K p) = p ∧ p + 1 ≤ s.mem 0 + K ∧
      ∀ u q, ownsPush (s.loc u) q ∨ ownsPop (s.loc u) q → wrapIdx K q ≠ wrapIdx K p := by
  have i := SInv.reachable hK h
  have h2 := i.2.2 t
  rw [hl] at h2
  obtain ⟨a, b, c⟩ := h2
  have hr := i.2.1.ready_ahead hK (p := p) (by omega) (by omega) (c hc)
  exact ⟨c hc, by omega, hr.2⟩

/-- 5''. and for the pop: if the head CAS of a thread at `oCas x` is about to succeed, position
`x` is Full -/
theorem C34_pop_claim_validated (K : Nat) (hK : 2 ≤ K) (s : State (proto K))
    (h : Reachable (init K) s) (t : TId) (x : Int)
    (hl : s.loc t = L.oCas x) (hc : s.mem 0 = x) :
    s.mem (seqF K x) = x + 1 ∧ x < s.mem 1 ∧ 0 ≤ s.mem (dataF K x) := by
  have i := SInv.reachable hK h
  have h2 := i.2.2 t
  rw [hl] at h2
  subst hc
  have hf := i.2.1.full_head hK (h2.2 rfl)
  exact ⟨h2.2 rfl, hf.1, hf.2.1⟩

/-- 4. quiescent states: when no thread is inside a call, the positions in `[head, tail)` are all
Full (with real elements) and the slots of `[tail, head + K)` are all Ready (and empty). -/
theorem C34_quiescent (K : Nat) (hK : 2 ≤ K) (s : State (proto K))
    (h : Reachable (init K) s) (hq : ∀ t, (proto K).op (s.loc t) = none) :
    (∀ p, s.mem 0 ≤ p → p < s.mem 1 → s.mem (seqF K p) = p + 1 ∧ 0 ≤ s.mem (dataF K p)) ∧
    (∀ p, s.mem 1 ≤ p → p < s.mem 0 + K → s.mem (seqF K p) = p ∧ s.mem (dataF K p) = -1) := by
  have c := (SInv.reachable hK h).2.1
  have b := c.bnd
  have hno : ∀ t p, ¬ ownsPush (s.loc t) p ∧ ¬ ownsPop (s.loc t) p := by
    intro t p
    have := hq t
    cases hl : s.loc t <;> simp [proto, op, hl] at this <;> simp [ownsPush, ownsPop]
  constructor
  · intro p h1 h2
    rcases c.live p h1 h2 with h3 | h3
    · obtain ⟨t, ht⟩ := c.epush p h1 h2 h3
      exact absurd ht (hno t p).1
    · exact h3
  · intro p h1 h2
    have e1 : seqF K (p - K) = seqF K p := by simp
    have e2 : dataF K (p - K) = dataF K p := by simp
    by_cases hn : p - K < 0
    · have := c.neg (p - K) (by omega) hn
      rw [e1, e2] at this
      exact ⟨by omega, this.2⟩
    · rcases c.old (p - K) (by omega) (by omega) (by omega) with h3 | h3
      · obtain ⟨t, ht⟩ := c.epop (p - K) (by omega) (by omega) (by omega) h3
        exact absurd ht (hno t _).2
      · rw [e1, e2] at h3
        exact ⟨by omega, h3.2⟩

/-- 4, consequence for a producer: from a quiescent state a `try_push v` run alone succeeds
(returns 1, and leaves `v` published at the old tail) iff `tail - head < K` … -/
theorem C34_quiescent_push_succeeds (K : Nat) (hK : 2 ≤ K) (s : State (proto K))
    (h : Reachable (init K) s) (hq : ∀ t, (proto K).op (s.loc t) = none) (t : TId) (v : Int)
    (hv : 0 ≤ v) (hlt : s.mem 1 - s.mem 0 < K) :
    ∃ s', run s [.call t (.eLoadT v), .step t, .step t, .step t, .step t, .step t] = some s' ∧
      s'.loc t = L.done [1] ∧ s'.mem 1 = s.mem 1 + 1 ∧ s'.mem 0 = s.mem 0 ∧
      s'.mem (dataF K (s.mem 1)) = v ∧ s'.mem (seqF K (s.mem 1)) = s.mem 1 + 1 := by
  have hp := (SInv.reachable hK h).1 t
  have b := C34_bounds K hK s h
  have hs := ((C34_quiescent K hK s h hq).2 (s.mem 1) (by omega) (by omega)).1
  obtain ⟨s0, e0, p0, l0, m0⟩ :=
    ex_call (K := K) (.eLoadT v) hp (hq t) (by simpa [isEntry] using hv)
  obtain ⟨s1, e1, p1, l1, m1⟩ := ex_eLoadT p0 l0
  obtain ⟨s2, e2, p2, l2, m2⟩ := ex_eLoadSeq p1 l1
  rw [m1, m0, hs, Int.sub_self, if_pos rfl] at l2
  obtain ⟨s3, e3, p3, l3, m3⟩ := ex_eCas p2 l2 (by rw [m2, m1, m0])
  obtain ⟨s4, e4, p4, l4, m4⟩ := ex_eWrite p3 l3
  obtain ⟨s5, e5, p5, l5, m5⟩ := ex_ePub p4 l4
  refine ⟨s5, by rw [run_cons _ e0, run_cons _ e1, run_cons _ e2, run_cons _ e3, run_cons _ e4,
    run_cons _ e5]; rfl, l5, ?_, ?_, ?_, ?_⟩ <;>
  simp [m5, m4, m3, m2, m1, m0, updM]

/-- … and fails (returns 0 after three steps, changing nothing) iff the buffer is full. -/
theorem C34_quiescent_push_fails (K : Nat) (hK : 2 ≤ K) (s : State (proto K))
    (h : Reachable (init K) s) (hq : ∀ t, (proto K).op (s.loc t) = none) (t : TId) (v : Int)
    (hv : 0 ≤ v) (hfull : ¬ s.mem 1 - s.mem 0 < K) :
    ∃ s', run s [.call t (.eLoadT v), .step t, .step t] = some s' ∧
      s'.loc t = L.done [0] ∧ s'.mem = s.mem := by
  have hp := (SInv.reachable hK h).1 t
  have b := C34_bounds K hK s h
  have hs := ((C34_quiescent K hK s h hq).1 (s.mem 1 - K) (by omega) (by omega)).1
  have e : seqF K (s.mem 1 - K) = seqF K (s.mem 1) := by simp
  rw [e] at hs
  obtain ⟨s0, e0, p0, l0, m0⟩ :=
    ex_call (K := K) (.eLoadT v) hp (hq t) (by simpa [isEntry] using hv)
  obtain ⟨s1, e1, p1, l1, m1⟩ := ex_eLoadT p0 l0
  obtain ⟨s2, e2, p2, l2, m2⟩ := ex_eLoadSeq p1 l1
  rw [m1, m0, hs, if_neg (by omega)] at l2
  exact ⟨s2, by rw [run_cons _ e0, run_cons _ e1, run_cons _ e2]; rfl, l2, by rw [m2, m1, m0]⟩

/-- 4, consequence for a consumer: from a quiescent state a `try_pop` run alone succeeds and
returns the element at `head` (a real element) iff `head ≠ tail` … -/
theorem C34_quiescent_pop_succeeds (K : Nat) (hK : 2 ≤ K) (s : State (proto K))
    (h : Reachable (init K) s) (hq : ∀ t, (proto K).op (s.loc t) = none) (t : TId)
    (hne : s.mem 0 ≠ s.mem 1) :
    ∃ s', run s [.call t .oLoadH, .step t, .step t, .step t, .step t, .step t, .step t] = some s' ∧
      s'.loc t = L.done [1, s.mem (dataF K (s.mem 0))] ∧ 0 ≤ s.mem (dataF K (s.mem 0)) ∧
      s'.mem 0 = s.mem 0 + 1 ∧ s'.mem 1 = s.mem 1 := by
  have hp := (SInv.reachable hK h).1 t
  have b := C34_bounds K hK s h
  have hs := (C34_quiescent K hK s h hq).1 (s.mem 0) (by omega) (by omega)
  obtain ⟨s0, e0, p0, l0, m0⟩ := ex_call (K := K) .oLoadH hp (hq t) rfl
  obtain ⟨s1, e1, p1, l1, m1⟩ := ex_oLoadH p0 l0
  obtain ⟨s2, e2, p2, l2, m2⟩ := ex_oLoadT p1 l1
  rw [m1, m0, if_neg hne] at l2
  obtain ⟨s3, e3, p3, l3, m3⟩ := ex_oLoadSeq p2 l2
  rw [m2, m1, m0, hs.1, Int.sub_self, if_pos rfl] at l3
  obtain ⟨s4, e4, p4, l4, m4⟩ := ex_oCas p3 l3 (by rw [m3, m2, m1, m0])
  obtain ⟨s5, e5, p5, l5, m5⟩ := ex_oTake p4 l4
  obtain ⟨s6, e6, p6, l6, m6⟩ := ex_oPub p5 l5
  have ev : s4.mem (dataF K (s.mem 0)) = s.mem (dataF K (s.mem 0)) := by
    simp [m4, m3, m2, m1, m0, updM]
  rw [ev] at l6
  refine ⟨s6, by rw [run_cons _ e0, run_cons _ e1, run_cons _ e2, run_cons _ e3, run_cons _ e4,
    run_cons _ e5, run_cons _ e6]; rfl, l6, hs.2, ?_, ?_⟩ <;>
  simp [m6, m5, m4, m3, m2, m1, m0, updM]

/-- … and fails (returns 0 after three steps, changing nothing) iff the buffer is empty. -/
theorem C34_quiescent_pop_fails (K : Nat) (hK : 2 ≤ K) (s : State (proto K))
    (h : Reachable (init K) s) (hq : ∀ t, (proto K).op (s.loc t) = none) (t : TId)
    (hemp : s.mem 0 = s.mem 1) :
    ∃ s', run s [.call t .oLoadH, .step t, .step t] = some s' ∧
      s'.loc t = L.done [0] ∧ s'.mem = s.mem := by
  have hp := (SInv.reachable hK h).1 t
  obtain ⟨s0, e0, p0, l0, m0⟩ := ex_call (K := K) .oLoadH hp (hq t) rfl
  obtain ⟨s1, e1, p1, l1, m1⟩ := ex_oLoadH p0 l0
  obtain ⟨s2, e2, p2, l2, m2⟩ := ex_oLoadT p1 l1
  rw [m1, m0, if_pos hemp] at l2
  exact ⟨s2, by rw [run_cons _ e0, run_cons _ e1, run_cons _ e2]; rfl, l2, by rw [m2, m1, m0]⟩

/-! ### 3, packaged over histories

`logsOf evs` reads the claim/value logs off the event list of a run (`Proofs/Mpmc.lean`):
a successful `cas 1 e d` event (result = `e`) of thread `t` claims push positions `e … d-1` for
`t`; each later element store (`store` to an odd field ≥ 3) of `t` is paired with `t`'s oldest
claimed position without a value and appended to `pushLog`; a successful `cas 0 e _` claims pop
position `e` for `t`, and `t`'s next element exchange appends `(e, returned value)` to `popLog`. -/

theorem fst_nodup_fun {l : List (Int × Int)} (h : (l.map Prod.fst).Nodup) {p v v' : Int}
    (h1 : (p, v) ∈ l) (h2 : (p, v') ∈ l) : v = v' := by
  induction l with
  | nil => cases h1
  | cons a l ih =>
    rw [List.map_cons, List.nodup_cons] at h
    rcases List.mem_cons.1 h1 with h1 | h1 <;> rcases List.mem_cons.1 h2 with h2 | h2
    · rw [← h1] at h2; exact (Prod.mk.inj h2).2.symm
    · have ha : a.1 = p := by rw [← h1]
      exact absurd (List.mem_map.2 ⟨(p, v'), h2, ha.symm⟩) h.1
    · have ha : a.1 = p := by rw [← h2]
      exact absurd (List.mem_map.2 ⟨(p, v), h1, ha.symm⟩) h.1
    · exact ih h.2 h1 h2

/-- 3 (history form). along every run from `init K`: every position receives at most one element
store and at most one element take, and the element taken at claim position `p` is exactly the
element stored at claim position `p`. -/
theorem C34_fifo_history (K : Nat) (hK : 2 ≤ K) (as : List (Act (proto K)))
    (sf : State (proto K)) (evs : List Ev) (h : runEvs (init K) as = some (sf, evs)) :
    ((logsOf evs).pushLog.map Prod.fst).Nodup ∧ ((logsOf evs).popLog.map Prod.fst).Nodup ∧
    ∀ pv ∈ (logsOf evs).popLog, pv ∈ (logsOf evs).pushLog := by
  obtain ⟨_, j⟩ := hist_run hK as (init K) Logs.empty sf evs .init (HInv.init K) h
  exact ⟨j.nodupPush, j.nodupPop, fun ⟨p, v⟩ hpv => (j.popped p v hpv).1⟩

/-- the logs are functions of the position -/
theorem C34_fifo_history_fun (K : Nat) (hK : 2 ≤ K) (as : List (Act (proto K)))
    (sf : State (proto K)) (evs : List Ev) (h : runEvs (init K) as = some (sf, evs)) :
    (∀ p v v', (p, v) ∈ (logsOf evs).pushLog → (p, v') ∈ (logsOf evs).pushLog → v = v') ∧
    (∀ p v v', (p, v) ∈ (logsOf evs).popLog → (p, v') ∈ (logsOf evs).popLog → v = v') ∧
    (∀ p v v', (p, v) ∈ (logsOf evs).popLog → (p, v') ∈ (logsOf evs).pushLog → v = v') := by
  obtain ⟨h1, h2, h3⟩ := C34_fifo_history K hK as sf evs h
  exact ⟨fun p v v' a b => fst_nodup_fun h1 a b, fun p v v' a b => fst_nodup_fun h2 a b,
    fun p v v' a b => fst_nodup_fun h1 (h3 _ a) b⟩

/-- nothing is lost or invented: logged positions are below the final counters; in a quiescent
final state the stores cover exactly the positions `[0, tail)`, the takes exactly `[0, head)`, and
the elements stored at `[head, tail)` are still in their slots. -/
theorem C34_history_complete (K : Nat) (hK : 2 ≤ K) (as : List (Act (proto K)))
    (sf : State (proto K)) (evs : List Ev) (h : runEvs (init K) as = some (sf, evs)) :
    (∀ p v, (p, v) ∈ (logsOf evs).pushLog → 0 ≤ p ∧ p < sf.mem 1) ∧
    (∀ p v, (p, v) ∈ (logsOf evs).popLog → 0 ≤ p ∧ p < sf.mem 0) ∧
    ((∀ t, (proto K).op (sf.loc t) = none) →
      (∀ p, 0 ≤ p → p < sf.mem 1 → ∃ v, (p, v) ∈ (logsOf evs).pushLog) ∧
      (∀ p, 0 ≤ p → p < sf.mem 0 → ∃ v, (p, v) ∈ (logsOf evs).popLog) ∧
      (∀ p v, (p, v) ∈ (logsOf evs).pushLog → sf.mem 0 ≤ p → sf.mem (dataF K p) = v)) := by
  obtain ⟨_, j⟩ := hist_run hK as (init K) Logs.empty sf evs .init (HInv.init K) h
  refine ⟨fun p v hp => ⟨(j.logged p v hp).1, (j.logged p v hp).2.1⟩,
    fun p v hp => ⟨(j.logged p v (j.popped p v hp).1).1, (j.popped p v hp).2.1⟩, fun hq => ?_⟩
  have hno : ∀ t, pendOf (sf.loc t) = [] ∧ ppOf (sf.loc t) = none := by
    intro t
    have := hq t
    cases hl : sf.loc t <;> simp [proto, op, hl] at this <;> simp [pendOf, ppOf]
  refine ⟨fun p h1 h2 => j.complete p h1 h2 fun t => ?_,
    fun p h1 h2 => j.pcomplete p h1 h2 fun t => ?_,
    fun p v hp h1 => j.val p v hp (Or.inl h1)⟩
  · show p ∉ pendOf (sf.loc t); rw [(hno t).1]; simp
  · show ppOf (sf.loc t) ≠ some p; rw [(hno t).2]; simp

/-! ### non-vacuity -/

/-- two producers racing for position 0 (one loses the CAS and retries at position 1) and one
consumer, `K = 2` -/
def demoActs : List (Act (proto 2)) :=
  [.call 1 (.eLoadT 10), .call 2 (.eLoadT 20), .step 1, .step 2, .step 1, .step 2, .step 1, .step 2,
   .call 2 (.eLoadT 20), .step 2, .step 2, .step 2, .step 1, .step 1, .step 2, .step 2,
   .call 3 .oLoadH, .step 3, .step 3, .step 3, .step 3, .step 3, .step 3]

def view {K : Nat} (s : State (proto K)) : L × L × L × Int × Int :=
  (s.loc 1, s.loc 2, s.loc 3, s.mem 0, s.mem 1)

example : (run (init 2) demoActs).map view =
    some (.done [1], .done [1], .done [1, 10], 1, 2) := by decide

example : (runEvs (init 2) demoActs).map (fun r => r.2.filter (fun e => e.tid = 3)) =
    some [⟨3, .load 0, 0⟩, ⟨3, .load 1, 2⟩, ⟨3, .load 2, 1⟩, ⟨3, .cas 0 0 1, 0⟩,
      ⟨3, .xchg 3 (-1), 10⟩, ⟨3, .store 2 2, 0⟩] := by decide

example : (runEvs (init 2) demoActs).map (fun r => ((logsOf r.2).pushLog, (logsOf r.2).popLog)) =
    some ([(0, 10), (1, 20)], [(0, 10)]) := by decide

/-- a batch of three into `K = 4`, a batch that only finds one slot, then two pops -/
def demoBatch : List (Act (proto 4)) :=
  [.call 1 (.bLoadT [7, 8, 9]), .step 1, .step 1, .step 1, .step 1, .step 1,
   .call 2 (.bLoadT [5, 6]), .step 2, .step 2, .step 2, .step 2,
   .step 1, .step 1, .step 1, .step 1, .step 1, .step 1,
   .step 2, .step 2,
   .call 3 .oLoadH, .step 3, .step 3, .step 3, .step 3, .step 3, .step 3,
   .call 3 .oLoadH, .step 3, .step 3, .step 3, .step 3, .step 3, .step 3]

example : (runEvs (init 4) demoBatch).map
      (fun r => (view r.1, (logsOf r.2).pushLog, (logsOf r.2).popLog)) =
    some ((.done [3], .done [1], .done [1, 8], 2, 4),
      [(0, 7), (1, 8), (2, 9), (3, 5)], [(0, 7), (1, 8)]) := by decide

/-- `K = 1` is outside the theorems for a reason (and outside the C++: `static_assert(Capacity >=
2)`): with one slot, "Full for `p`" (`seq = p + 1`) and "Ready for `p + 1`" (`seq = p + K`)
coincide, so a producer can overwrite an element between a consumer's head CAS and its exchange.
Here consumer 3 claims position 0 (holding 10) but returns 20, the element of position 1; 10 is
lost. -/
def badActs : List (Act (proto 1)) :=
  [.call 1 (.eLoadT 10), .step 1, .step 1, .step 1, .step 1, .step 1,
   .call 3 .oLoadH, .step 3, .step 3, .step 3, .step 3,
   .call 2 (.eLoadT 20), .step 2, .step 2, .step 2, .step 2, .step 2,
   .step 3, .step 3]

example : (runEvs (init 1) badActs).map
      (fun r => (view r.1, (logsOf r.2).pushLog, (logsOf r.2).popLog)) =
    some ((.done [1], .done [1], .done [1, 20], 1, 2), [(0, 10), (1, 20)], [(0, 20)]) := by decide

end Dispenso.Mpmc
