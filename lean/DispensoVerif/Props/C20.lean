import DispensoVerif.Proofs.FutureEvt
import DispensoVerif.Proofs.FutureRun

/-!
# C20 — timed waits: ready means done, timeout means time elapsed

Model: `DispensoVerif/Model/Future.lean`.  `CompletionEventImpl::waitFor/waitUntil` (Linux futex
variant) and `FutureImplBase::waitFor/waitUntil` are modelled at one action per atomic operation /
futex call; the clock is field 8 of the model memory (nanoseconds, advanced by `tick n`, `n ≥ 0`).
The timed layer `texec` adds the futex contract — *a timed `FUTEX_WAIT` returns `ETIMEDOUT` only
after its relative timespec has elapsed* — as the only assumption about time: every futex wait
records `clock + rel` as the thread's deadline, and the `timeout` action is enabled only when the
deadline is `≤ clock`.  Everything else (any number of threads, any schedule, spurious wake-ups,
`notify` racing with the expiry) is the generic interleaving semantics.

A thread that returned from a timed wait is at `tdone r lb`: `r = 1` ready, `r = 0` timeout; `lb` is
the earliest time at which a timeout may be reported: `clock-at-call + rel` for `wait_for(rel)` /
`waitFor(rel)`, `abs` for `wait_until(abs)` / `waitUntil(abs)` (see `C20_bound_of_*`).
`rel` is the timespec the code passes to the futex, in integer nanoseconds: the `double → timespec`
conversion of the requested duration (which can lose up to 1 ns) is outside the model.
-/
namespace Dispenso.Future
open Dispenso.Conc

/-- initial timed state -/
def tInit {P : Proto} (s : State P) : TState P := ⟨s, fun _ => 0⟩

theorem tinv_init_fut (cfg : Cfg) (hs : List Nat) (now : Int) :
    TInv (cfg := cfg) (e := futEntry cfg) (tInit (futInit cfg hs now)) :=
  ⟨fun u f b h => (by cases h), fun t => trivial⟩

theorem tinv_init_evt (now : Int) : TInv (cfg := evtCfg) (e := evtEntry) (tInit (evtInit now)) :=
  ⟨fun u f b h => (by cases h), fun t => trivial⟩

/-- **C20.a** `Future::wait_for` / `wait_until` report a timeout only after the requested time has
elapsed: in every state reachable in the timed semantics — any interleaving, spurious wake-ups
included — a thread that has returned `timeout` with bound `lb` finds the clock at `≥ lb`. -/
theorem C20_future_timeout_after_deadline (cfg : Cfg) (hs : List Nat) (now : Int)
    (ts : TState (futProto cfg)) (h : TReachable pcOfL (tInit (futInit cfg hs now)) ts)
    (t : TId) (lb : Int) (hp : (ts.st.loc t).pc = .tdone 0 lb) : lb ≤ ts.st.mem 8 := by
  have I := tinv_reachable (futEntry_T cfg) (tinv_init_fut cfg hs now) h
  have := I.ti t
  rw [hp] at this
  exact this rfl

/-- **C20.b** `CompletionEvent::waitFor` / `waitUntil` report a timeout only after the requested
time has elapsed. -/
theorem C20_event_timeout_after_deadline (now : Int) (ts : TState evtProto)
    (h : TReachable pcOfL (tInit (evtInit now)) ts) (t : TId) (lb : Int)
    (hp : (ts.st.loc t).pc = .tdone 0 lb) : lb ≤ ts.st.mem 8 := by
  have I := tinv_reachable evtEntry_T (tinv_init_evt now) h
  have := I.ti t
  rw [hp] at this
  exact this rfl

/-- what the bound is, `wait_for(rel)` / `waitFor(rel)`: the clock read at the start of the call
plus `rel` -/
theorem C20_bound_of_wait_for (cfg : Cfg) (h0 : Nat) (rel clock : Int) (fut : Bool) :
    (cont cfg ⟨h0, .tfClock rel fut⟩ clock).pc =
      if fut then .wcLoad (.timed rel (clock + rel)) cfg.allowInline else .wfLoad0 rel (clock + rel) :=
  rfl

/-- what the bound is, `wait_until(abs)` / `waitUntil(abs)`: `abs` itself, the relative timeout
being `abs - Clock::now()` -/
theorem C20_bound_of_wait_until (cfg : Cfg) (h0 : Nat) (abs clock : Int) :
    (cont cfg ⟨h0, .wuClock abs⟩ clock).pc = .wfLoad0 (abs - clock) abs := rfl

/-- **C20.c** Future timed waits report `ready` only when the future is complete: a thread that has
returned `ready` from `wait_for`/`wait_until` sees the status `kReady`, and the functor has run
exactly once. -/
theorem C20_future_ready_means_done (cfg : Cfg) (hc : cfg.c = 2) (hs : List Nat) (now : Int)
    (ts : TState (futProto cfg)) (h : TReachable pcOfL (tInit (futInit cfg hs now)) ts)
    (t : TId) (lb : Int) (hp : (ts.st.loc t).pc = .tdone 1 lb) :
    ts.st.mem 0 = 2 ∧ ts.st.mem 2 = 1 := by
  have hr : Reachable (futInit cfg hs now) ts.st := treachable_reachable h
  have I := (inv_reachable hc hr).2
  have hl := I.lc t
  rw [hp] at hl
  exact ⟨hl rfl, (I.rd (hl rfl)).1⟩

/-- **C20.d** CompletionEvent waits report completion only when the event is completed: a thread
that has returned from `wait()`, or `true` from `waitFor`/`waitUntil`, sees the status 1
(and the status never leaves {0, 1} without `reset()`). -/
theorem C20_event_ready_means_completed (now : Int) (s : State evtProto)
    (h : Reachable (evtInit now) s) (t : TId)
    (hp : (s.loc t).pc = .wdone ∨ ∃ lb, (s.loc t).pc = .tdone 1 lb) :
    s.mem 0 = 1 := by
  have I := invE_reachable h
  refine I.rr t ?_
  rcases hp with hp | ⟨lb, hp⟩ <;> rw [hp] <;> simp [retReady]

/-- **C20.e** The deferred-policy rule: a timed wait of a Future that was created without
`std::launch::deferred` (`allowInline_ = false`) never runs the functor — no thread executing
`wait_for`/`wait_until` is ever at the CAS or inside `run(int)`.  (With `allowInline_ = true` it
may: see the example below.) -/
theorem C20_timed_wait_runs_functor_only_if_deferred (cfg : Cfg) (ha : cfg.allowInline = false)
    (hs : List Nat) (now : Int) (s : State (futProto cfg)) (h : Reachable (futInit cfg hs now) s)
    (t : TId) (k : K)
    (hp : (s.loc t).pc = .rnCas k ∨ (s.loc t).pc = .fnInc k ∨ (s.loc t).pc = .fnStore k ∨
      (s.loc t).pc = .fnThrow k ∨ (s.loc t).pc = .ntStore k ∨ (s.loc t).pc = .ntWake k ∨
      (s.loc t).pc = .tsSub k) : isTimedK k = false := by
  have hD := local_invariant (cfg := cfg) (e := futEntry cfg) (fun l => Dpc cfg l.pc)
    (Dpc_cont cfg) (Dpc_entry cfg) (s0 := futInit cfg hs now) (fun _ => trivial) h t
  cases hk : isTimedK k
  · rfl
  · rcases hp with hp | hp | hp | hp | hp | hp | hp <;> rw [hp] at hD <;>
      (have := hD hk; rw [ha] at this; cases this)

/-! ### non-vacuity -/

/-- run a list of actions in the timed semantics -/
def trun {P : Proto} (pcOf : P.L → PC) (s : TState P) : List (Act P) → Option (TState P)
  | [] => some s
  | a :: as => match texec pcOf s a with
    | some s' => trun pcOf s' as
    | none => none

theorem treachable_of_trun {P : Proto} {pcOf : P.L → PC} {s0 s : TState P} (as : List (Act P))
    (h : trun pcOf s0 as = some s) : TReachable pcOf s0 s := by
  induction as generalizing s0 with
  | nil => simp [trun] at h; subst h; exact .init
  | cons a as ih =>
    simp only [trun] at h
    split at h
    · rename_i s' hs'
      have r := ih h
      clear ih h
      induction r with
      | init => exact .step a .init hs'
      | step b _ hb ih2 => exact .step b ih2 hb
    · contradiction

def evView (ts : TState evtProto) : List Int × PC := ([ts.st.mem 0, ts.st.mem 8, ts.dl 1], (ts.st.loc 1).pc)

/-- `waitFor(100)` at clock 0 parks with deadline 100; after 100 ns it times out: `tdone 0 100` -/
example :
    ((trun pcOfL (tInit (evtInit 0))
      [.call 1 ⟨0, .tfClock 100 false⟩, .step 1, .step 1, .step 1, .step 1,
       .call 9 ⟨0, .tick 100⟩, .step 9, .timeout 1]).map evView)
    = some ([0, 100, 100], .tdone 0 100) := by decide

/-- … and it cannot time out at clock 99 -/
example :
    ((trun pcOfL (tInit (evtInit 0))
      [.call 1 ⟨0, .tfClock 100 false⟩, .step 1, .step 1, .step 1, .step 1,
       .call 9 ⟨0, .tick 99⟩, .step 9, .timeout 1]).map evView) = none := by decide

/-- `notify()` racing with the wait: the waiter is woken and returns `true` -/
example :
    ((trun pcOfL (tInit (evtInit 0))
      [.call 1 ⟨0, .tfClock 100 false⟩, .step 1, .step 1, .step 1, .step 1,
       .call 2 ⟨0, .ntStore .notify⟩, .step 2, .wake 2 [1], .step 1]).map evView)
    = some ([1, 0, 0], .tdone 1 100) := by decide

def dfCfg : Cfg := { c := 2, val := 7, throws := false, hasTsc := false, allowInline := true }

def futView (ts : TState (futProto dfCfg)) : List Int × PC := ([ts.st.mem 0, ts.st.mem 2], (ts.st.loc 0).pc)

/-- a deferred future: `wait_for` of thread 0 wins the CAS and runs the functor inline -/
example :
    ((trun pcOfL (tInit (futInit dfCfg [1] 0))
      [.call 0 ⟨1, .tfClock 50 true⟩, .step 0, .step 0, .step 0, .step 0, .step 0, .step 0,
       .wake 0 []]).map futView)
    = some ([2, 1], .tdone 1 50) := by decide

end Dispenso.Future
