import DispensoVerif.Model.InlineDepth
/-! C46: the depth to which guarded inline execution nests on one thread is bounded by the constant
    `K = kMaxInlineDepth`, whatever the number of tasks.  (Bodies run from a queue by a waiting
    thread are user recursion — a body that calls wait() — and are not counted; the zero-thread
    pool's unguarded inline path is excluded by hypothesis and recorded as a known finding.) -/
namespace Dispenso.InlineDepth

/-- invariant: the guarded depth never exceeds K, and a pending guarded decision was taken below K -/
def Inv (s : Thr) : Prop :=
  depth s.stack ≤ K ∧ (s.pending = some .guarded → depth s.stack < K)

theorem depth_cons (h : How) (l : List How) :
    depth (h :: l) = depth l + (if h = .guarded then 1 else 0) := by
  unfold depth
  by_cases hg : h = .guarded <;> simp [hg]

theorem step_inv (s s' : Thr) (e : Ev) (hi : Inv s) (hs : step s e = some s') : Inv s' := by
  obtain ⟨h1, h2⟩ := hi
  cases e with
  | decideGuarded =>
    simp only [step] at hs
    split at hs
    · next hc => cases hs; exact ⟨h1, fun _ => hc.2⟩
    · cases hs
  | decideUnguarded =>
    simp only [step] at hs
    split at hs
    · cases hs; exact ⟨h1, fun h => by simp at h⟩
    · cases hs
  | begin_ =>
    simp only [step] at hs
    cases hp : s.pending with
    | none =>
      rw [hp] at hs; cases hs
      refine ⟨?_, fun h => by simp at h⟩
      rw [depth_cons]; simp; exact h1
    | some h =>
      rw [hp] at hs; cases hs
      refine ⟨?_, fun h => by simp at h⟩
      rw [depth_cons]
      by_cases hg : h = .guarded
      · subst hg; have := h2 hp; simp; omega
      · simp [hg]; exact h1
  | skip => simp only [step] at hs; cases hs; exact ⟨h1, fun h => by simp at h⟩
  | end_ =>
    simp only [step] at hs
    cases hst : s.stack with
    | nil => rw [hst] at hs; cases hs
    | cons x rest =>
      rw [hst] at hs
      by_cases hc : s.pending = none
      · simp only [hc, if_true] at hs
        cases hs
        rw [hst, depth_cons] at h1
        exact ⟨by simp; omega, fun h => by simp at h⟩
      · simp only [hc, if_false] at hs
        cases hs

theorem run_inv (tr : List Ev) (s s' : Thr) (hi : Inv s) (hr : run s tr = some s') : Inv s' := by
  induction tr generalizing s with
  | nil => simp [run] at hr; subst hr; exact hi
  | cons e rest ih =>
    simp only [run] at hr
    cases hst : step s e with
    | none => rw [hst] at hr; cases hr
    | some s1 => rw [hst] at hr; exact ih s1 (step_inv s s1 e hi hst) hr

/-- C46: after any accepted event sequence of any length (any number of tasks), the number of nested
    guarded inline executions on the thread is at most `K = 32`. -/
theorem C46_bounded (tr : List Ev) (s : Thr) (hr : run {} tr = some s) : depth s.stack ≤ K :=
  (run_inv tr {} s ⟨by simp [depth], fun h => by simp at h⟩ hr).1

/-- the bound is independent of how many bodies ran: a guarded decision at depth K is rejected -/
theorem C46_guard_rejects (s : Thr) (h : depth s.stack = K) : step s .decideGuarded = none := by
  simp [step, h]

/-- total nesting of inline-run bodies (guarded or not) is bounded as well when the trace contains no
    zero-thread (unguarded) inline decision: every non-queued entry of the stack is guarded -/
theorem C46_no_unguarded (tr : List Ev) (s : Thr) (hr : run {} tr = some s)
    (hno : Ev.decideUnguarded ∉ tr) : How.unguarded ∉ s.stack ∧ s.pending ≠ some .unguarded := by
  suffices h : ∀ (tr : List Ev) (s0 s : Thr), How.unguarded ∉ s0.stack → s0.pending ≠ some .unguarded →
      Ev.decideUnguarded ∉ tr → run s0 tr = some s → How.unguarded ∉ s.stack ∧ s.pending ≠ some .unguarded from
    h tr {} s (by simp) (by simp) hno hr
  intro tr
  induction tr with
  | nil => intro s0 s h1 h2 _ hr; simp [run] at hr; subst hr; exact ⟨h1, h2⟩
  | cons e rest ih =>
    intro s0 s h1 h2 hno hr
    simp only [run] at hr
    cases hst : step s0 e with
    | none => rw [hst] at hr; cases hr
    | some s1 =>
      rw [hst] at hr
      have hne : e ≠ .decideUnguarded := fun h => hno (by simp [h])
      have hrest : Ev.decideUnguarded ∉ rest := fun h => hno (by simp [h])
      refine ih s1 s ?_ ?_ hrest hr
      · cases e with
        | decideGuarded => simp only [step] at hst; split at hst <;> cases hst; exact h1
        | decideUnguarded => exact absurd rfl hne
        | begin_ =>
          simp only [step] at hst
          cases hp : s0.pending with
          | none => rw [hp] at hst; cases hst; simp; exact h1
          | some h =>
            rw [hp] at hst; cases hst
            have : h ≠ .unguarded := fun hh => h2 (by rw [hp, hh])
            simp; exact ⟨fun hh => this hh.symm, h1⟩
        | skip => simp only [step] at hst; cases hst; exact h1
        | end_ =>
          simp only [step] at hst
          cases hs : s0.stack with
          | nil => rw [hs] at hst; cases hst
          | cons x r =>
            rw [hs] at hst
            by_cases hc : s0.pending = none
            · simp only [hc, if_true] at hst
              cases hst
              rw [hs] at h1; simp at h1; exact h1.2
            · simp only [hc, if_false] at hst
              cases hst
      · cases e with
        | decideGuarded => simp only [step] at hst; split at hst <;> cases hst; simp
        | decideUnguarded => exact absurd rfl hne
        | begin_ =>
          simp only [step] at hst
          cases hp : s0.pending <;> rw [hp] at hst <;> cases hst <;> simp
        | skip => simp only [step] at hst; cases hst; simp
        | end_ =>
          simp only [step] at hst
          cases hs : s0.stack with
          | nil => rw [hs] at hst; cases hst
          | cons x r =>
            rw [hs] at hst
            by_cases hc : s0.pending = none
            · simp only [hc, if_true] at hst
              cases hst; simp
            · simp only [hc, if_false] at hst
              cases hst

/-- non-vacuity: a chain of guarded inline runs nested to depth 3, unwound again -/
example : (run {} [.decideGuarded, .begin_, .decideGuarded, .begin_, .decideGuarded, .begin_, .end_, .end_, .end_]).isSome = true := by
  decide

/-- the 33rd nested guarded decision is rejected -/
example : run {} ((List.replicate 32 [Ev.decideGuarded, Ev.begin_]).flatten ++ [.decideGuarded]) = none := by
  decide

end Dispenso.InlineDepth
