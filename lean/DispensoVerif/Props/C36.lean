import DispensoVerif.Proofs.ChaseLev

/-!
# C36 — Chase-Lev deque: bounded, exactly-once, conserving, ordered

Model: `DispensoVerif/Model/ChaseLev.lean` (one model action per atomic operation, fence or slot
access of `dispenso::ChaseLevDeque<T, Capacity>`; field 0 = `top_`, field 1 = `bottom_`,
`slotF C p` = the slot of position `p`).  Sequentially consistent.  Usage contract (`Roles O`): one
owner thread `O` makes all `try_push` / `try_pop` / `try_pop_into` calls; any thread (including `O`)
may call `try_steal` / `empty` / `size`.  All theorems hold for every finite run from the initial
state, any number of threads, any interleaving — including `try_pop_into` and the race between the
owner and thieves for the last element.

Definitions used in the statements (in `DispensoVerif/Proofs/ChaseLev.lean`):
* `Roles O as`, `pushArgs as`, `takenVals rs` — as in the contract;
* `pushedOk O rs as` — the arguments of the `try_push` calls that returned `[1]`: the i-th call of
  `O` is paired with the i-th return of `O`;
* `sabs C O s` — the abstract deque of state `s`, oldest element first: the slots of the positions
  `top ≤ p < lbot`, where the logical bottom `lbot` is `bottom + 1` while the owner is inside a pop
  between its store `bottom := b` and the restore / return (`midPop`), and `bottom` otherwise.
-/
namespace Dispenso.ChaseLev
open Dispenso.Conc

/-! The helper definitions are the ones of the contract (named matchers instead of inline ones). -/

example {C : Nat} (as : List (Act (proto C))) :
    pushArgs as = (callsOf as).filterMap fun p => match (p.2 : L) with
      | .pLoadB v => some v
      | _ => none := by
  rfl

example {C : Nat} (rs : List (TId × (proto C).L)) :
    takenVals rs = rs.filterMap fun p => match (p.2 : L) with
      | .done [1, v] => some v
      | _ => none := by
  rfl

/-- the values stored at the positions `top ≤ p < bottom`, oldest first -/
def contents {C : Nat} (s : State (proto C)) : List Int :=
  (List.range (s.mem 1 - s.mem 0).toNat).map fun (i : Nat) => s.mem (slotF C (s.mem 0 + (i : Int)))

/-- every state reached under the contract satisfies the invariant -/
theorem inv_of_run {C : Nat} (hC : 1 ≤ C) {O : TId} {as : List (Act (proto C))}
    {s : State (proto C)} (hr : Roles O as) (h : run (init C) as = some s) : Inv C O s :=
  inv_run hC as (init C) s (inv_init C O) hr h

/-- **C36.1** The deque never holds more than `C` elements: `0 ≤ top`, `bottom - top ≤ C`, and
`top ≤ bottom` except transiently (`top = bottom + 1`) while the owner is inside a pop on an empty
deque. -/
theorem C36_bounds (C : Nat) (hC : 1 ≤ C) (O : TId) (as : List (Act (proto C)))
    (s : State (proto C)) (hr : Roles O as) (h : run (init C) as = some s) :
    0 ≤ s.mem 0 ∧ s.mem 0 ≤ s.mem 1 + 1 ∧ s.mem 1 - s.mem 0 ≤ C := by
  have hI := inv_of_run hC hr h
  have hown := hI.own
  refine ⟨hI.top0, ?_⟩
  generalize (s.loc O : L) = l at hown
  cases l <;> simp only [OwnOk] at hown <;> omega

/-- `top ≤ bottom` whenever the owner is not inside a pop. -/
theorem C36_bounds_outside_pop (C : Nat) (hC : 1 ≤ C) (O : TId) (as : List (Act (proto C)))
    (s : State (proto C)) (hr : Roles O as) (h : run (init C) as = some s)
    (hp : midPop (s.loc O) = false) : s.mem 0 ≤ s.mem 1 := by
  have hown := (inv_of_run hC hr h).own
  generalize (s.loc O : L) = l at hown hp
  cases l <;> simp only [OwnOk, midPop, reduceCtorEq] at hown hp <;> omega

/-- **C36.3 (general form)** Conservation in every state, quiescent or not: the values returned so
far together with the abstract deque are exactly the values of the pushes that completed
successfully. -/
theorem C36_conservation (C : Nat) (hC : 1 ≤ C) (O : TId) (as : List (Act (proto C)))
    (s : State (proto C)) (rs : List (TId × (proto C).L)) (hr : Roles O as)
    (h : runRets (init C) as = some (s, rs)) :
    (takenVals rs ++ sabs C O s).Perm (pushedOk O rs as) := by
  have := conserve_run hC as (init C) s rs (inv_init C O) hr h
  have h0 : sabs C O (init C) = [] := by simp [sabs, absq, init, initState, lbot, midPop]
  have h1 : cur C O (init C) = [] := by simp [cur, init, initState, op]
  rw [h0, h1] at this
  exact this.symm

/-- **C36.2** With distinct pushed tags, no element is returned twice (by any mix of owner pops and
steals, including the race for the last element), and every returned element was pushed. -/
theorem C36_exactly_once (C : Nat) (hC : 1 ≤ C) (O : TId) (as : List (Act (proto C)))
    (s : State (proto C)) (rs : List (TId × (proto C).L)) (hr : Roles O as)
    (hd : (pushArgs as).Nodup) (h : runRets (init C) as = some (s, rs)) :
    (takenVals rs).Nodup ∧ ∀ v ∈ takenVals rs, v ∈ pushArgs as := by
  have hp := C36_conservation C hC O as s rs hr h
  have hsub : (pushedOk O rs as).Sublist (pushArgs as) := by
    rw [← ocalls_filterMap_id hr]
    exact pz_sublist _ _
  have hnd : (takenVals rs ++ sabs C O s).Nodup := hp.nodup_iff.2 (hd.sublist hsub)
  refine ⟨(List.nodup_append.1 hnd).1, fun v hv => ?_⟩
  exact hsub.subset (hp.subset (List.mem_append_left _ hv))

/-- With distinct pushed tags, an element that has been returned is no longer in the deque, and the
deque holds no element twice. -/
theorem C36_taken_not_in_deque (C : Nat) (hC : 1 ≤ C) (O : TId) (as : List (Act (proto C)))
    (s : State (proto C)) (rs : List (TId × (proto C).L)) (hr : Roles O as)
    (hd : (pushArgs as).Nodup) (h : runRets (init C) as = some (s, rs)) :
    (sabs C O s).Nodup ∧ ∀ v ∈ takenVals rs, v ∉ sabs C O s := by
  have hp := C36_conservation C hC O as s rs hr h
  have hsub : (pushedOk O rs as).Sublist (pushArgs as) := by
    rw [← ocalls_filterMap_id hr]
    exact pz_sublist _ _
  have hnd : (takenVals rs ++ sabs C O s).Nodup := hp.nodup_iff.2 (hd.sublist hsub)
  obtain ⟨_, h2, h3⟩ := List.nodup_append.1 hnd
  exact ⟨h2, fun v hv hv' => h3 v hv v hv' rfl⟩

/-- in a quiescent state the abstract deque is the stored contents `top ≤ p < bottom` -/
theorem sabs_quiescent {C : Nat} (O : TId) (s : State (proto C))
    (hq : ∀ t, (proto C).op (s.loc t) = none) : sabs C O s = contents s := by
  have h : op C (s.loc O) = none := hq O
  have hm : midPop (s.loc O) = false := by
    generalize (s.loc O : L) = l at h
    cases l <;> simp_all [op, midPop]
  simp [sabs, absq, contents, seg, lbot, hm]

/-- **C36.3** Conservation at quiescence: when every thread is idle, the returned values together
with the stored contents are a permutation of the successfully pushed values — nothing is lost,
nothing is duplicated, nothing is invented. -/
theorem C36_conservation_quiescent (C : Nat) (hC : 1 ≤ C) (O : TId) (as : List (Act (proto C)))
    (s : State (proto C)) (rs : List (TId × (proto C).L)) (hr : Roles O as)
    (h : runRets (init C) as = some (s, rs)) (hq : ∀ t, (proto C).op (s.loc t) = none) :
    (takenVals rs ++ contents s).Perm (pushedOk O rs as) := by
  rw [← sabs_quiescent O s hq]
  exact C36_conservation C hC O as s rs hr h

/-- **C36.4** Order.  Whenever a step of thread `u` completes a take returning `(1, v)`:
a steal (`u` at `.sCas t v'`) observed `top = t`, returns the value stored at position `top`, and
removes the *oldest* element (the head) of the abstract deque; an owner pop removes the *newest*
element (the last). -/
theorem C36_order (C : Nat) (hC : 1 ≤ C) (O : TId) (as : List (Act (proto C)))
    (s s' : State (proto C)) (u : TId) (v : Int) (hr : Roles O as)
    (h : run (init C) as = some s) (he : exec s (.step u) = some s')
    (hv : s'.loc u = L.done [1, v]) :
    (ownerState (s.loc u) = false →
      (∃ t, s.loc u = L.sCas t v ∧ t = s.mem 0 ∧ v = s.mem (slotF C t)) ∧
      sabs C O s = v :: sabs C O s') ∧
    (ownerState (s.loc u) = true → u = O ∧ sabs C O s = sabs C O s' ++ [v]) :=
  order_step hC (inv_of_run hC hr h) he hv

/-- **C36.4a** When a steal CAS is about to succeed (`top` still equals the observed `t`), the value
read earlier is still the value at position `t = top`, and that position is in the deque: it is the
oldest element. -/
theorem C36_steal_oldest (C : Nat) (hC : 1 ≤ C) (O : TId) (as : List (Act (proto C)))
    (s : State (proto C)) (u : TId) (t v : Int) (hr : Roles O as)
    (h : run (init C) as = some s) (hl : s.loc u = L.sCas t v) (ht : s.mem 0 = t) :
    s.mem (slotF C t) = v ∧ (sabs C O s).head? = some v := by
  have hI := inv_of_run hC hr h
  have hth := hI.thief u
  rw [hl] at hth
  simp only [ThiefOk] at hth
  obtain ⟨_, hlt, hv⟩ := hth
  have hv' := hv ht.symm
  refine ⟨hv'.symm, ?_⟩
  have := absq_steal (C := C) (m := s.mem) (l := s.loc O) (by rw [ht]; exact hlt)
  unfold sabs
  rw [this, ht, ← hv']
  rfl

/-- **C36.4b** The owner's fast path (`t < b` after publishing `bottom = b`): position `b` is still
in the deque (`top ≤ b = bottom`), the pop returns the value stored there, and it is the newest
element of the deque. -/
theorem C36_pop_newest (C : Nat) (hC : 1 ≤ C) (O : TId) (as : List (Act (proto C)))
    (s s' : State (proto C)) (into : Bool) (b t : Int) (hr : Roles O as)
    (h : run (init C) as = some s) (hl : s.loc O = L.oRead into b t) (htb : t < b)
    (he : exec s (.step O) = some s') :
    s.mem 1 = b ∧ s.mem 0 ≤ b ∧ s'.loc O = L.done [1, s.mem (slotF C b)] ∧
      sabs C O s = sabs C O s' ++ [s.mem (slotF C b)] := by
  have hI := inv_of_run hC hr h
  have hown := hI.own
  rw [hl] at hown
  simp only [OwnOk] at hown
  have hloc' : s'.loc O = L.done [1, s.mem (slotF C b)] := by
    rcases exec_inv hI.np he with ⟨t', l, h', _⟩ | ⟨t', l', h', hs, _, hloc⟩
    · cases h'
    · cases h'
      have hlu : s'.loc O = l' := by rw [hloc]; exact if_pos rfl
      rw [hlu]
      generalize s'.mem = m' at hs
      rw [hl] at hs
      cases hs with
      | oReadFast => rfl
      | oReadLastInto _ _ hn => exact absurd htb hn
      | oReadLast _ _ hn => exact absurd htb hn
  refine ⟨hown.1, hown.2.2.2.1 htb, hloc', ?_⟩
  exact ((order_step hC hI he hloc').2 (by rw [hl]; rfl)).2

/-! ### non-vacuity: concrete runs for `C = 2`, owner = thread 0, thief = thread 1 -/

/-- push 5, push 6 (owner); steal (thief) gets 5; pop (owner) takes the last element 6 by CAS -/
def demo1 : List (Act (proto 2)) :=
  [.call 0 (.pLoadB 5), .step 0, .step 0, .step 0, .step 0,
   .call 0 (.pLoadB 6), .step 0, .step 0, .step 0, .step 0,
   .call 1 .sLoadT, .step 1, .step 1, .step 1, .step 1, .step 1,
   .call 0 (.oLoadB false), .step 0, .step 0, .step 0, .step 0, .step 0, .step 0, .step 0]

/-- push 5, push 6 (owner); pop (owner, fast path) gets 6; steal (thief) gets 5 -/
def demo2 : List (Act (proto 2)) :=
  [.call 0 (.pLoadB 5), .step 0, .step 0, .step 0, .step 0,
   .call 0 (.pLoadB 6), .step 0, .step 0, .step 0, .step 0,
   .call 0 (.oLoadB false), .step 0, .step 0, .step 0, .step 0, .step 0,
   .call 1 .sLoadT, .step 1, .step 1, .step 1, .step 1, .step 1]

example : (runRets (init 2) demo1).map (fun p => takenVals p.2) = some [5, 6] := by decide
example : (runRets (init 2) demo2).map (fun p => takenVals p.2) = some [6, 5] := by decide
example : (runRets (init 2) demo1).map (fun p => (p.1.mem 0, p.1.mem 1)) = some (2, 2) := by
  decide
example : (runRets (init 2) demo2).map (fun p => pushedOk 0 p.2 demo2) = some [5, 6] := by decide
example : pushArgs demo1 = [5, 6] := by decide

theorem demo1_roles : Roles 0 demo1 := by
  intro a ha t l h1 h2
  simp only [demo1, List.mem_cons, List.not_mem_nil, or_false] at ha
  rcases ha with rfl | rfl | rfl | rfl | rfl | rfl | rfl | rfl | rfl | rfl | rfl | rfl | rfl |
    rfl | rfl | rfl | rfl | rfl | rfl | rfl | rfl | rfl | rfl | rfl <;>
  (cases h1 <;> first | rfl | cases h2)

/-- the theorems apply to the concrete run -/
example : ∀ s rs, runRets (init 2) demo1 = some (s, rs) →
    (takenVals rs).Nodup ∧ (takenVals rs ++ sabs 2 0 s).Perm (pushedOk 0 rs demo1) :=
  fun s rs h =>
    ⟨(C36_exactly_once 2 (by decide) 0 demo1 s rs demo1_roles (by decide) h).1,
     C36_conservation 2 (by decide) 0 demo1 s rs demo1_roles h⟩

/-- capacity 1: push 5 succeeds, push 6 fails (full), `try_pop_into` returns 5 -/
def demo3 : List (Act (proto 1)) :=
  [.call 0 (.pLoadB 5), .step 0, .step 0, .step 0, .step 0,
   .call 0 (.pLoadB 6), .step 0, .step 0,
   .call 0 (.oLoadB true), .step 0, .step 0, .step 0, .step 0, .step 0, .step 0, .step 0]

example : (runRets (init 1) demo3).map (fun p => (takenVals p.2, pushedOk 0 p.2 demo3)) =
    some ([5], [5]) := by decide
example : pushArgs demo3 = [5, 6] := by decide

/-- the race for the last element: the thief has read position 0, the owner (`try_pop_into`) gets
as far as its CAS; the thief's CAS wins, the owner's fails and returns 0 -/
def demo4 : List (Act (proto 2)) :=
  [.call 0 (.pLoadB 5), .step 0, .step 0, .step 0, .step 0,
   .call 1 .sLoadT, .step 1, .step 1, .step 1, .step 1,
   .call 0 (.oLoadB true), .step 0, .step 0, .step 0, .step 0, .step 0, .step 0,
   .step 1, .step 0]

example : (runRets (init 2) demo4).map (fun p => (p.2 : List (TId × L))) =
    some [(0, L.done [1]), (1, L.done [1, 5]), (0, L.done [0])] := by decide

end Dispenso.ChaseLev
