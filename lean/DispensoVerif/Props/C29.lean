import DispensoVerif.Props.C28

/-!
# C29 — pipeline exceptions terminate cleanly without leaks

Model: `DispensoVerif/Model/Pipeline.lean`.  The model is the *repaired* code when all four flags of
`c.fix` are set (`Fix.all`); each flag switched off gives one original behaviour, kept for the
witnesses below:
* `skip`   — a canceled task set drops a queued stage closure (`OnceFunction`) without releasing it
* `dtor`   — `~LimitGatedScheduler::Impl` forgets closures left in the local queue
* `guard`  — a generator closure that is dropped unrun never signals the completion event
* `catch_` — an exception of a generator closure that runs inline escapes from `execute()`

Proved for every reachable state of every configuration (`Reach c st`: any interleaving):
no (item, stage) twice, every closure is run or released at most once, a generator instance that
has observed the exception makes no further call, a losing `trySetCurrentException` changes nothing,
the repaired skip branch never forgets a closure.  *Not* proved (covered by the trace validation
and the oracle of the check only): that the exception `pipeline()` rethrows is the first one recorded,
and that at the moment `pipeline()` returns after an exception every queue is empty and every item
released — see `C29_first_exception_partial`.
-/
namespace Dispenso.Pipe
open Choice
set_option linter.unusedSimpArgs false
set_option linter.unusedTactic false
set_option linter.unusedVariables false

/-- **C29.a** No item is processed by any stage twice (also while / after stages throw). -/
theorem C29_never_twice (c : Cfg) (st : St) (hr : Reach c st) (s i : Nat) : st.sh.ran s i ≤ 1 :=
  ran_le_one hr s i

/-- **C29.b** Every closure created for (stage `s`, item `i`) is entered by the stage function or
released (`cleanupNotRun` / destroyed unrun) — never both, never twice: at most one closure is ever
created for the pair, and runs + releases never exceed it. -/
theorem C29_run_or_released_once (c : Cfg) (st : St) (hr : Reach c st) (s i : Nat) :
    st.sh.arr s i ≤ 1 ∧ st.sh.ran s i + st.sh.rel s i ≤ st.sh.arr s i := by
  refine ⟨arr_le_one hr i s, ?_⟩
  have h1 := p1_inv c s i hr
  have n1 := sumT_nonneg (wP1 s i) (wP1_nn s i) st.thr c.pool
  simp only [SW, GP1] at h1
  omega

/-- **C29.c** The generator stops once the exception is observed: an instance that reads
`hasException() = true` ends; it calls the generator function only right after reading `false`. -/
theorem C29_generator_stops (c : Cfg) (sh sh' : Sh) (rest stk' : List Frame) (o : Own) (ch : Choice)
    (hg : sh.guard ≠ 0) (h : stepGen c sh rest o .chk ch = some (sh', stk')) :
    sh' = sh ∧ stk' = .gen o .fin :: rest := by
  cases ch <;> simp [stepGen, hg] at h
  exact ⟨h.1.symm, h.2.symm⟩

/-- **C29.d** (partial: "first exception wins") A `trySetCurrentException` whose CAS loses changes
neither the stored exception nor the guard nor the canceled flag, a winning one stores the
exception of its own thread, and `ConcurrentTaskSet::wait` rethrows exactly the stored one.
What is missing for the full statement: that the winning CAS is the first CAS of the run and that
no thread is still inside `trySetCurrentException` when the caller tests the guard. -/
theorem C29_first_exception_partial (c : Cfg) (sh sh' : Sh) (rest stk' : List Frame) (e : Exc) :
    (sh.guard ≠ 0 → stepTs sh rest e .cas .go = some (sh', stk') →
      sh'.exw = sh.exw ∧ sh'.guard = sh.guard ∧ sh'.canceled = sh.canceled ∧ stk' = rest) ∧
    (stepTs sh rest e .st .go = some (sh', stk') → sh'.exw = some e ∧ sh'.guard = 2) ∧
    (∀ r, stepCtsW c sh false r .t1 .go = some (sh', stk') → sh'.mpc = startDtor c sh.exw ∧ sh'.guard = 0) := by
  refine ⟨?_, ?_, ?_⟩
  · intro hg h
    simp [stepTs, hg] at h
    obtain ⟨rfl, rfl⟩ := h
    simp
  · intro h
    simp [stepTs] at h
    obtain ⟨rfl, rfl⟩ := h
    simp
  · intro r h
    simp [stepCtsW] at h
    obtain ⟨rfl, rfl⟩ := h
    simp

/-- **C29.e** With the repaired skip branch (`packageTask`, and `schedule()`'s return when canceled) no
stage closure is ever dropped without being released. -/
theorem C29_no_forgotten_closure (c : Cfg) (hf : c.fix.skip = true) (st : St) (hr : Reach c st) (s : Nat) :
    st.sh.leaked s = 0 :=
  lk_inv c s hf (fun _ _ => trivial) hr

/-! ### witnesses of the original behaviours (one flag off is enough; all four off here) -/

/-- **original `guard`**: a generator instance that is still queued when another instance's exception
cancels the set is skipped and never signals: the caller blocks in `completion_->wait(0)` forever
(no thread can take a step). -/
theorem C29_old_skipped_generator_hangs :
    ∃ st, Reach (cfgOld 2 2) st ∧ st.sh.mpc = .compl ∧ st.sh.compl = 1 ∧
      ∀ t ch, step (cfgOld 2 2) st t ch = none := by
  let l : List (Nat × Choice) :=
    [(0, go), (0, pkg), (0, go), (0, go), (0, pkg), (0, go), (0, go),
     (1, take .gen), (1, go), (1, go), (1, go), (1, gthr 0), (1, go), (1, go), (1, go), (1, go), (1, go), (1, go),
     (2, take .gen), (2, go), (2, go)]
  have hsome : (run (cfgOld 2 2) (St.init (cfgOld 2 2)) l).isSome = true := by decide
  obtain ⟨st, hst⟩ := Option.isSome_iff_exists.mp hsome
  have hm : st.sh.mpc = .compl := by
    have : (run (cfgOld 2 2) (St.init (cfgOld 2 2)) l).map (fun s => decide (s.sh.mpc = .compl)) = some true := by decide
    rw [hst] at this; simpa using this
  have hc : st.sh.compl = 1 := by
    have : (run (cfgOld 2 2) (St.init (cfgOld 2 2)) l).map (fun s => s.sh.compl) = some 1 := by decide
    rw [hst] at this; simpa using this
  have hp : st.sh.pool = [] := by
    have : (run (cfgOld 2 2) (St.init (cfgOld 2 2)) l).map (fun s => s.sh.pool) = some [] := by decide
    rw [hst] at this; simpa using this
  have ht : ∀ t, t ≤ (cfgOld 2 2).pool → st.thr t = [] := by
    have : (run (cfgOld 2 2) (St.init (cfgOld 2 2)) l).map (fun s => (s.thr 0, s.thr 1, s.thr 2)) = some ([], [], []) := by
      decide
    rw [hst] at this
    simp only [Option.map_some, Option.some.injEq, Prod.mk.injEq] at this
    obtain ⟨a, b, d⟩ := this
    intro t hle
    have : t = 0 ∨ t = 1 ∨ t = 2 := by simp [cfgOld] at hle; omega
    rcases this with rfl | rfl | rfl <;> assumption
  exact ⟨st, reach_of_run l .init hst, hm, hc, stuck_in_completion_wait ht hp hm (by omega)⟩

/-- **original `skip`**: the closure of item 0, packaged for the pool before the exception, is skipped by
`packageTask` and never released: `pipeline()` has returned, every thread is idle, and item 0 is
still pending at stage 1 (its closure was forgotten). -/
theorem C29_old_skipped_closure_leaks :
    ∃ st r, Reach (cfgOld 1 1) st ∧ st.sh.mpc = .done r ∧ st.thr 0 = [] ∧ st.thr 1 = [] ∧
      st.sh.pool = [] ∧ st.sh.qn 1 = 0 ∧ st.sh.pend 1 = [0] ∧ st.sh.leaked 1 = 1 := by
  let l : List (Nat × Choice) :=
    [(0, go), (0, pkg), (0, go), (0, go),
     (1, take .gen), (1, go), (1, go), (1, go), (1, item 0), (1, go), (1, go), (1, go), (1, deq), (1, pkg), (1, go),
     (1, go), (1, go), (1, go), (1, go), (1, gthr 1), (1, go), (1, go), (1, go), (1, go), (1, go), (1, go),
     (1, take (.q 1)), (1, go), (1, go), (1, go),
     (0, go), (0, go), (0, go), (0, deqFail), (0, go), (0, go), (0, go), (0, go), (0, go), (0, go)]
  have hsome : (run (cfgOld 1 1) (St.init (cfgOld 1 1)) l).isSome = true := by decide
  obtain ⟨st, hst⟩ := Option.isSome_iff_exists.mp hsome
  have h1 : (run (cfgOld 1 1) (St.init (cfgOld 1 1)) l).map
      (fun s => (decide (s.sh.mpc = .done (some (0, 1))), s.thr 0, s.thr 1)) = some (true, [], []) := by decide
  have h2 : (run (cfgOld 1 1) (St.init (cfgOld 1 1)) l).map
      (fun s => (s.sh.pool, s.sh.qn 1, s.sh.pend 1, s.sh.leaked 1)) = some ([], 0, [0], 1) := by decide
  rw [hst] at h1 h2
  simp only [Option.map_some, Option.some.injEq, Prod.mk.injEq, decide_eq_true_eq] at h1 h2
  obtain ⟨a, b, d⟩ := h1
  obtain ⟨e, f, g, h⟩ := h2
  exact ⟨st, _, reach_of_run l .init hst, a, b, d, e, f, g, h⟩

/-- **original `dtor`**: a closure that is still in the local queue when the pipeline winds down (here:
after `wait()`'s discard pass missed it) is forgotten by `~Impl`: `pipeline()` has returned and the
queue of stage 1 still holds the closure of item 0. -/
theorem C29_old_queue_left_behind :
    ∃ st r, Reach (cfgOld 1 1) st ∧ st.sh.mpc = .done r ∧ st.thr 0 = [] ∧ st.thr 1 = [] ∧
      st.sh.qn 1 = 1 ∧ st.sh.pend 1 = [0] := by
  let l : List (Nat × Choice) :=
    [(0, go), (0, pkg), (0, go), (0, go),
     (1, take .gen), (1, go), (1, go), (1, go), (1, item 0), (1, go), (1, go), (1, go), (1, deqFail), (1, go),
     (1, go), (1, go), (1, gthr 1), (1, go), (1, go), (1, go), (1, go), (1, go), (1, go),
     (0, go), (0, go), (0, go), (0, deqFail), (0, go), (0, go), (0, go), (0, go), (0, go), (0, go)]
  have hsome : (run (cfgOld 1 1) (St.init (cfgOld 1 1)) l).isSome = true := by decide
  obtain ⟨st, hst⟩ := Option.isSome_iff_exists.mp hsome
  have h1 : (run (cfgOld 1 1) (St.init (cfgOld 1 1)) l).map
      (fun s => (decide (s.sh.mpc = .done (some (0, 1))), s.thr 0, s.thr 1)) = some (true, [], []) := by decide
  have h2 : (run (cfgOld 1 1) (St.init (cfgOld 1 1)) l).map
      (fun s => (s.sh.qn 1, s.sh.pend 1)) = some (1, [0]) := by decide
  rw [hst] at h1 h2
  simp only [Option.map_some, Option.some.injEq, Prod.mk.injEq, decide_eq_true_eq] at h1 h2
  obtain ⟨a, b, d⟩ := h1
  obtain ⟨e, f⟩ := h2
  exact ⟨st, _, reach_of_run l .init hst, a, b, d, e, f⟩

/-- **original `catch_`**: the generator closure runs inline in `execute()` and throws: the exception
leaves `execute()`, `pipeline()` unwinds (its `pipes` are being destroyed: the caller is in
`~ConcurrentTaskSet`) while a pool thread is still inside the stage function of item 0. -/
theorem C29_old_exception_escapes_execute :
    ∃ st r, Reach (cfgOld 1 1) st ∧ st.sh.mpc = .cts true .c0 r ∧ st.sh.guard = 0 ∧
      st.thr 1 = [.qr 1 0 .in_, .pkg (.q 1) (.dec false)] := by
  let l : List (Nat × Choice) :=
    [(0, go), (0, inl), (0, go), (0, go), (0, item 0), (0, go), (0, go), (0, go), (0, deq), (0, pkg), (0, go),
     (0, go), (0, go),
     (1, take (.q 1)), (1, go), (1, begin 0),
     (0, go), (0, go), (0, gthr 1), (0, go), (0, go), (0, go)]
  have hsome : (run (cfgOld 1 1) (St.init (cfgOld 1 1)) l).isSome = true := by decide
  obtain ⟨st, hst⟩ := Option.isSome_iff_exists.mp hsome
  have hall : (run (cfgOld 1 1) (St.init (cfgOld 1 1)) l).map
      (fun s => (decide (s.sh.mpc = .cts true .c0 (some (0, 1))), s.sh.guard, s.thr 1))
      = some (true, 0, [.qr 1 0 .in_, .pkg (.q 1) (.dec false)]) := by decide
  rw [hst] at hall
  simp only [Option.map_some, Option.some.injEq, Prod.mk.injEq, decide_eq_true_eq] at hall
  obtain ⟨a, b, d⟩ := hall
  exact ⟨st, _, reach_of_run l .init hst, a, b, d⟩

end Dispenso.Pipe
