import DispensoVerif.Proofs.SchedReach

/-!
# C08 — `ThreadPool::workRemaining_` accounting

Model: `DispensoVerif/Model/Sched.lean` (`step`, the ledger automaton that also accepts the traces
of the real code).  `Reach s`: `s` is the ledger after some accepted trace starting from the
initial ledger.  `pending` models `workRemaining_`.

`workRemaining_` is, at every moment, exactly the number of tasks that were counted and not yet
placed (credits of submission calls in progress), plus the tasks sitting in a tier, plus the tasks
taken from a tier whose decrement is still due.  Hence it is zero whenever nothing is queued,
reserved, taken or running.
-/
namespace Dispenso.Sched

/-- the accounting equation, for every reachable ledger -/
theorem C08_accounting {s : St} (h : Reach s) :
    s.pending = (((allFrames s).map Frame.credit).sum : Nat) + (s.tierItems.length : Nat)
      + (((allFrames s).map Frame.unacc).sum : Nat) := by
  have := (Inv.reach h).acc
  rw [tot_eq, tot_eq] at this
  exact this

/-- queue bookkeeping behind the accounting: the tasks known to be queued or taken-but-not-yet
identified (`queuedSets`, one set id each) are those sitting in a tier plus those held by a frame
in the `took` state.  (The suggested orientation `tierItems.length = queuedSets.length + #took` is
not an invariant: `take` removes the tier entry but keeps the `queuedSets` entry until the task is
identified by `begin_` / `tsGuard`.) -/
theorem C08_queue_bookkeeping {s : St} (h : Reach s) :
    s.queuedSets.length = s.tierItems.length + (allFrames s).countP (fun f => f.pend = .took) := by
  have := (Inv.reach h).que
  rw [tot_eq] at this
  unfold mTook at this
  rw [ind_sum_eq_countP] at this
  omega

/-- at a quiescent point `workRemaining_` is zero -/
theorem C08_quiescent_zero {s : St} (h : Reach s) (hq : s.quiescent = true) : s.pending = 0 := by
  have hacc := (Inv.reach h).acc
  obtain ⟨h1, h2⟩ := (quiescent_iff s).1 hq
  have hc : tot mCredit s = 0 := (tot_eq_zero _ s).2 fun f hf =>
    ((settled_iff f).1 (h2 f hf).1).2.1
  have hu : tot mUnacc s = 0 := (tot_eq_zero _ s).2 fun f hf =>
    ((settled_iff f).1 (h2 f hf).1).2.2.2.1
  rw [hacc, hc, hu, h1]
  rfl

/-- the value the harness reads at a quiescent point is zero -/
theorem C08_quiesce_event {s s' : St} {t : Nat} {v : Int} (h : Reach s)
    (hs : step s t (.quiesce v) = some s') : v = 0 := by
  obtain ⟨f, rest, _, hst⟩ := step_inv' hs
  cases hst with
  | quiesce _ hq hv => rw [hv]; exact C08_quiescent_zero h hq

/-- when `resize` finishes, the resizing thread has accounted for every task it drained -/
theorem C08_resize_end_settled {s s' : St} {t n : Nat}
    (hs : step s t (.resizeEnd n) = some s') : (s.top t).unacc = 0 := by
  obtain ⟨f, rest, hf, hst⟩ := step_inv' hs
  cases hst with
  | resizeEnd _ hk hr hst => rw [top_eq hf]; exact ((settled_iff f).1 hst).2.2.2.1

/-- non-vacuity: an accepted trace (pool of one thread, one task, destruction); the task ran once,
`workRemaining_` is back to zero -/
example : (run (St.init 0) sampleTrace).map (fun s => (s.destroyed, s.begun, s.ended, s.pending))
    = some (true, [7], [7], 0) := rfl

/-- non-vacuity of the quiescent read: the same trace extended by a `quiesce 0` event is accepted,
a `quiesce 1` event is not -/
example : (run (St.init 0) (sampleTrace ++ [(0, .quiesce 0)])).isSome = true := rfl
example : (run (St.init 0) (sampleTrace ++ [(0, .quiesce 1)])).isSome = false := rfl

end Dispenso.Sched
