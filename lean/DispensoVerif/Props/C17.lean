import DispensoVerif.Proofs.Chunk
import Mathlib.Tactic.SplitIfs

/-!
# C17 — static chunking arithmetic partitions ranges exactly

Statement (properties.jsonl): staticChunkSize, its granularity-aware variant and the per-chunk
boundaries parallel_for and for_each derive from them split any item count into the requested
number of contiguous chunks; the chunks cover every item exactly once, sizes differ by at most one
unit (of granularity), and the larger chunks come first.

Domain: items ≥ 0, chunks ≥ 1, granularity ≥ 1, granularity ∣ items, no ssize_t overflow
(`NoOverflow`).  All theorems are for every such input — no bound on sizes.
-/
namespace Dispenso.Chunk

/-- size of chunk `idx` according to a chunking with unit `g` -/
def chunkSizeAt (r : StaticChunking) (g idx : Int) : Int :=
  if idx < r.transitionTaskIndex then r.ceilChunkSize else r.ceilChunkSize - g

/-- **C17.a** transition index is in `(0, chunks]`, both for the plain and the granular variant. -/
theorem C17_transition_range (items chunks g : Int) (hi : 0 ≤ items) (hc : 0 < chunks)
    (hg : 1 ≤ g) (hdvd : g ∣ items) :
    0 < (staticChunkSizeGranular items chunks g).transitionTaskIndex ∧
    (staticChunkSizeGranular items chunks g).transitionTaskIndex ≤ chunks := by
  by_cases h1 : g ≤ 1
  · rw [granular_one _ _ _ h1]; exact static_t_range items chunks hi hc
  · obtain ⟨u, rfl⟩ := hdvd
    have hu : 0 ≤ u := by
      by_contra hneg
      have : g * u < 0 := Int.mul_neg_of_pos_of_neg (by omega) (by omega)
      omega
    rw [granular_eq_units u chunks g (by omega) hu]
    exact static_t_range u chunks hu hc

/-- **C17.b** the sizes sum to the item count:
`t` chunks of `c` items followed by `chunks - t` chunks of `c - g` items. -/
theorem C17_sum (items chunks g : Int) (hi : 0 ≤ items) (hg : 1 ≤ g) (hdvd : g ∣ items) :
    let r := staticChunkSizeGranular items chunks g
    r.transitionTaskIndex * r.ceilChunkSize +
      (chunks - r.transitionTaskIndex) * (r.ceilChunkSize - g) = items := by
  by_cases h1 : g ≤ 1
  · have hg1 : g = 1 := by omega
    subst hg1
    rw [granular_one _ _ _ h1]; exact static_sum items chunks
  · obtain ⟨u, rfl⟩ := hdvd
    have hu : 0 ≤ u := by
      by_contra hneg
      have : g * u < 0 := Int.mul_neg_of_pos_of_neg (by omega) (by omega)
      omega
    rw [granular_eq_units u chunks g (by omega) hu]
    have := static_sum u chunks
    simp only at this ⊢
    have e : ∀ t c : Int, t * (c * g) + (chunks - t) * (c * g - g)
        = g * (t * c + (chunks - t) * (c - 1)) := by intro t c; ring
    rw [e, this]

/-- **C17.c** every chunk size is a non-negative multiple of the granularity, sizes differ by at
most one unit and are non-increasing in the chunk index (larger chunks first). -/
theorem C17_sizes (items chunks g : Int) (hi : 0 ≤ items) (hc : 0 < chunks)
    (hg : 1 ≤ g) (hdvd : g ∣ items) :
    let r := staticChunkSizeGranular items chunks g
    (∀ idx, 0 ≤ idx → idx < chunks → 0 ≤ chunkSizeAt r g idx ∧ g ∣ chunkSizeAt r g idx) ∧
    (∀ i j, i ≤ j →
      chunkSizeAt r g j ≤ chunkSizeAt r g i ∧ chunkSizeAt r g i ≤ chunkSizeAt r g j + g) := by
  intro r
  have key : ∃ u cu : Int, 0 ≤ u ∧ r.ceilChunkSize = cu * g ∧ 0 ≤ cu ∧
      (r.transitionTaskIndex < chunks → 1 ≤ cu) := by
    by_cases h1 : g ≤ 1
    · have hg1 : g = 1 := by omega
      subst hg1
      refine ⟨items, (staticChunkSize items chunks).ceilChunkSize, hi, ?_, ?_, ?_⟩
      · show (staticChunkSizeGranular items chunks 1).ceilChunkSize = _
        rw [granular_one _ _ _ h1]; omega
      · exact (ceil_div_bounds items chunks hi hc).2.2
      · intro ht
        have : r = staticChunkSize items chunks := granular_one _ _ _ h1
        rw [this] at ht
        exact static_ceil_pos_of_imperfect items chunks hi hc ht
    · obtain ⟨u, rfl⟩ := hdvd
      have hu : 0 ≤ u := by
        by_contra hneg
        have : g * u < 0 := Int.mul_neg_of_pos_of_neg (by omega) (by omega)
        omega
      have hr : r = _ := granular_eq_units u chunks g (by omega) hu
      refine ⟨u, (staticChunkSize u chunks).ceilChunkSize, hu, ?_, ?_, ?_⟩
      · rw [hr]
      · exact (ceil_div_bounds u chunks hu hc).2.2
      · intro ht
        rw [hr] at ht
        exact static_ceil_pos_of_imperfect u chunks hu hc ht
  obtain ⟨u, cu, hu, hceil, hcu, hpos⟩ := key
  constructor
  · intro idx h0 hlt
    unfold chunkSizeAt
    split_ifs with h
    · rw [hceil]; exact ⟨by nlinarith, Dvd.intro_left cu rfl⟩
    · have : 1 ≤ cu := hpos (by omega)
      rw [hceil]
      refine ⟨by nlinarith, ⟨cu - 1, by ring⟩⟩
  · intro i j hij
    unfold chunkSizeAt
    split_ifs <;> constructor <;> omega

/-! ### per-chunk boundaries (StaticChunkMapper / for_each offsets) -/

/-- well-formed abstract mapper: `T` big chunks then small ones, summing to the range -/
structure Mapper.WF (m : Mapper) : Prop where
  n_pos : 0 < m.numThreads
  t_lo : 0 ≤ m.transIdx
  t_hi : m.transIdx ≤ m.numThreads
  c_nonneg : 0 ≤ m.chunkSize
  sm_nonneg : m.transIdx < m.numThreads → 0 ≤ m.smallChunk
  total : m.transIdx * m.chunkSize + (m.numThreads - m.transIdx) * m.smallChunk
            = m.rangeEnd - m.rangeStart

def Mapper.size (m : Mapper) (idx : Int) : Int :=
  if idx < m.transIdx then m.chunkSize else m.smallChunk

theorem Mapper.start_zero (m : Mapper) (h : m.WF) : m.start 0 = m.rangeStart := by
  unfold Mapper.start
  split_ifs with h0
  · ring
  · have : m.transIdx = 0 := by have := h.t_lo; omega
    rw [this]; ring

theorem Mapper.start_succ (m : Mapper) (idx : Int) :
    m.start (idx + 1) = m.start idx + m.size idx := by
  unfold Mapper.start Mapper.size
  split_ifs with h1 h2 h2
  · ring
  · omega
  · have : m.transIdx = idx + 1 := by omega
    rw [this]; ring
  · ring

/-- the last chunk, whose end the code pins to `rangeEnd`, has exactly its nominal size -/
theorem Mapper.start_last (m : Mapper) (h : m.WF) :
    m.start (m.numThreads - 1) + m.size (m.numThreads - 1) = m.rangeEnd := by
  have tot := h.total
  unfold Mapper.start Mapper.size
  split_ifs with h1
  · have : m.transIdx = m.numThreads := by have := h.t_hi; omega
    rw [this] at tot
    have : m.numThreads * m.chunkSize = m.rangeEnd - m.rangeStart := by
      rw [← tot]; ring
    have e : m.rangeStart + (m.numThreads - 1) * m.chunkSize + m.chunkSize
        = m.rangeStart + m.numThreads * m.chunkSize := by ring
    rw [e, this]; ring
  · have e : m.rangeStart + m.transIdx * m.chunkSize +
        (m.numThreads - 1 - m.transIdx) * m.smallChunk + m.smallChunk
        = m.rangeStart + (m.transIdx * m.chunkSize + (m.numThreads - m.transIdx) * m.smallChunk) := by
      ring
    rw [e, tot]; ring

theorem Mapper.stop_eq (m : Mapper) (h : m.WF) (idx : Int) :
    m.stop idx = m.start idx + m.size idx := by
  unfold Mapper.stop
  split_ifs with h1 h2
  · have : idx = m.numThreads - 1 := by omega
    rw [this, m.start_last h]
  · simp [Mapper.size, h2]
  · simp [Mapper.size, h2]

theorem Mapper.size_nonneg (m : Mapper) (h : m.WF) (idx : Int) (h1 : idx < m.numThreads) :
    0 ≤ m.size idx := by
  unfold Mapper.size
  split_ifs with h2
  · exact h.c_nonneg
  · exact h.sm_nonneg (by omega)

/-- boundary sequence of a mapper -/
def Mapper.bound (m : Mapper) (i : Nat) : Int := m.start (i : Int)

theorem Mapper.bound_mono (m : Mapper) (h : m.WF) : MonoUpTo m.bound m.numThreads.toNat := by
  intro i hi
  unfold Mapper.bound
  have : ((i + 1 : Nat) : Int) = (i : Int) + 1 := by omega
  rw [this, m.start_succ]
  have := m.size_nonneg h i (by omega)
  omega

theorem Mapper.bound_last (m : Mapper) (h : m.WF) : m.bound m.numThreads.toNat = m.rangeEnd := by
  unfold Mapper.bound
  have hn := h.n_pos
  have : ((m.numThreads.toNat : Nat) : Int) = (m.numThreads - 1) + 1 := by omega
  rw [this, m.start_succ, m.start_last h]

theorem Mapper.chunk_eq_bounds (m : Mapper) (h : m.WF) (i : Nat) :
    m.start i = m.bound i ∧ m.stop i = m.bound (i + 1) := by
  refine ⟨rfl, ?_⟩
  unfold Mapper.bound
  have : ((i + 1 : Nat) : Int) = (i : Int) + 1 := by omega
  rw [this, m.start_succ, m.stop_eq h]

/-- **C17.d** (boundaries) For a well-formed mapper the chunks `[start i, stop i)`, `i < n`, are
contiguous from `rangeStart` to `rangeEnd`, and every item of the range lies in exactly one. -/
theorem C17_mapper_partition (m : Mapper) (h : m.WF) :
    m.start 0 = m.rangeStart ∧
    (∀ i : Nat, (i : Int) + 1 < m.numThreads → m.stop i = m.start ((i : Int) + 1)) ∧
    m.stop (m.numThreads - 1) = m.rangeEnd ∧
    (∀ i : Nat, (i : Int) < m.numThreads → m.start i ≤ m.stop i) ∧
    (∀ x, m.rangeStart ≤ x → x < m.rangeEnd →
      ∃ i : Nat, ((i : Int) < m.numThreads ∧ m.start i ≤ x ∧ x < m.stop i) ∧
        ∀ j : Nat, ((j : Int) < m.numThreads ∧ m.start j ≤ x ∧ x < m.stop j) → j = i) := by
  refine ⟨m.start_zero h, ?_, ?_, ?_, ?_⟩
  · intro i _
    rw [m.stop_eq h, m.start_succ]
  · rw [m.stop_eq h, m.start_last h]
  · intro i hi
    rw [m.stop_eq h]
    have := m.size_nonneg h i hi
    omega
  · intro x hlo hhi
    have hmono := m.bound_mono h
    have h0 : m.bound 0 ≤ x := by
      have : m.bound 0 = m.rangeStart := m.start_zero h
      omega
    have hn : x < m.bound m.numThreads.toNat := by rw [m.bound_last h]; exact hhi
    obtain ⟨i, ⟨hi, a, b⟩, huniq⟩ := chunk_exists_unique hmono x h0 hn
    have hnp := h.n_pos
    refine ⟨i, ⟨by omega, ?_, ?_⟩, ?_⟩
    · exact a
    · rw [(m.chunk_eq_bounds h i).2]; exact b
    · intro j ⟨hj, c, d⟩
      apply huniq
      refine ⟨by omega, c, ?_⟩
      rw [← (m.chunk_eq_bounds h j).2]; exact d

/-- The mapper `parallel_for_staticImpl` actually builds is well-formed on the property's domain. -/
theorem mkMapper_wf (s e n g : Int) (hse : s ≤ e) (hn : 0 < n) (hg : 1 ≤ g) (hdvd : g ∣ (e - s)) :
    (mkMapper s e n g).WF := by
  have hi : 0 ≤ e - s := by omega
  obtain ⟨ht0, ht1⟩ := C17_transition_range (e - s) n g hi hn hg hdvd
  have hsum := C17_sum (e - s) n g hi hg hdvd
  obtain ⟨hsz, _⟩ := C17_sizes (e - s) n g hi hn hg hdvd
  simp only at hsum hsz
  have hstep : (if g > 1 then g else 1) = g := by split_ifs <;> omega
  by_cases hp : (staticChunkSizeGranular (e - s) n g).transitionTaskIndex = n
  · have h0 := hsz 0 (by omega) hn
    unfold chunkSizeAt at h0
    rw [if_pos (by omega)] at h0
    refine { n_pos := ?_, t_lo := ?_, t_hi := ?_, c_nonneg := ?_, sm_nonneg := ?_, total := ?_ }
      <;> simp only [mkMapper, hp, if_true]
    · exact hn
    · omega
    · omega
    · exact h0.1
    · intro h; omega
    · rw [hp] at hsum; simp at hsum ⊢; linarith
  · have hlt : (staticChunkSizeGranular (e - s) n g).transitionTaskIndex < n := by omega
    have h0 := hsz 0 (by omega) hn
    have hl := hsz (n - 1) (by omega) (by omega)
    unfold chunkSizeAt at h0 hl
    rw [if_pos (by omega)] at h0
    rw [if_neg (by omega)] at hl
    refine { n_pos := ?_, t_lo := ?_, t_hi := ?_, c_nonneg := ?_, sm_nonneg := ?_, total := ?_ }
      <;> simp only [mkMapper, hp, if_false, hstep]
    · exact hn
    · omega
    · omega
    · exact h0.1
    · intro _; exact hl.1
    · exact hsum

/-- **C17 (main)**: the chunks `parallel_for`'s static path derives cover every index of
`[start, end)` exactly once and are contiguous, for every range, chunk count and granularity in
the domain. -/
theorem C17_static_chunks_partition (s e n g : Int) (hse : s ≤ e) (hn : 0 < n) (hg : 1 ≤ g)
    (hdvd : g ∣ (e - s)) (x : Int) (hx0 : s ≤ x) (hx1 : x < e) :
    ∃ i : Nat, ((i : Int) < n ∧ (mkMapper s e n g).start i ≤ x ∧ x < (mkMapper s e n g).stop i) ∧
      ∀ j : Nat, ((j : Int) < n ∧ (mkMapper s e n g).start j ≤ x ∧ x < (mkMapper s e n g).stop j)
        → j = i := by
  have wf := mkMapper_wf s e n g hse hn hg hdvd
  have := (C17_mapper_partition _ wf).2.2.2.2 x (by simpa [mkMapper] using hx0)
    (by simpa [mkMapper] using hx1)
  simpa [mkMapper] using this

/-- for_each offsets agree with the mapper on `[0, n)` with unit 1 -/
theorem forEachOffset_eq (n numThreads idx : Int) :
    forEachOffset n numThreads idx =
      ((mkMapper 0 n numThreads 1).start idx, (mkMapper 0 n numThreads 1).size idx) := by
  have g1 : staticChunkSizeGranular (n - 0) numThreads 1 = staticChunkSize n numThreads := by
    rw [granular_one _ _ _ (by omega)]; simp
  unfold forEachOffset mkMapper Mapper.start Mapper.size
  simp only [g1]
  by_cases hp : (staticChunkSize n numThreads).transitionTaskIndex = numThreads
  · simp only [hp, if_true]; split_ifs <;> simp
  · simp only [hp, if_false]; split_ifs <;> simp

/-- **C17.e** no signed overflow (UB) inside staticChunkSize on the stated domain. -/
theorem C17_no_overflow (items chunks : Int) (hi : 0 ≤ items) (hc : 0 < chunks)
    (hno : NoOverflow items chunks) :
    let c := (items + chunks - 1).tdiv chunks
    0 ≤ items + chunks - 1 ∧ items + chunks - 1 ≤ ssizeMax ∧
    0 ≤ c ∧ c ≤ ssizeMax ∧ 0 ≤ c * chunks ∧ c * chunks ≤ ssizeMax ∧
    0 ≤ c * chunks - items ∧ c * chunks - items < chunks :=
  static_no_overflow items chunks hi hc hno

/-! ### non-vacuity -/
example : (mkMapper 3 13 4 1).chunks = [(3, 6), (6, 9), (9, 11), (11, 13)] := by decide
example : (mkMapper (-4) 20 5 4).chunks = [(-4, 4), (4, 8), (8, 12), (12, 16), (16, 20)] := by
  decide
example : (mkMapper 3 13 4 1).WF := mkMapper_wf 3 13 4 1 (by omega) (by omega) (by omega)
  (by decide)
example : staticChunkSize 1 3 = { transitionTaskIndex := 1, ceilChunkSize := 1 } := by decide

end Dispenso.Chunk
