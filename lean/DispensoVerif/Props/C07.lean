import DispensoVerif.Proofs.WakeGuard
import DispensoVerif.Proofs.WakeMask
import DispensoVerif.Props.C09
/-
C07 — Submissions to an idle pool start without the sleep backstop.

C07 DOES NOT HOLD on this tree (two known findings, reproduced on the real pool by
harness/conc/c07_wake.cpp): the futex wake of a group-shared EpochWaiter is delivered to arbitrary
members of the group, not to the member whose sleep bit was claimed / whose ring received the task, and
the central-queue hint can be cleared by a racing worker.  The first mechanism lives in the wake protocol
modelled by `Model/Wake.lean` and is exhibited here as theorems (`C07_claimed_worker_stays_parked`,
`C07_range_wake_releases_wrong_member`); the second involves `centralQueueNonEmpty_`, which is outside this
model.  What the wake protocol does guarantee is proved for all interleavings, all `N`, `G ≥ 1`
(names end in `_partial` because they fall short of the property):
  * `C07_epoch_guard_partial`: no wake-up is lost between enterSleep and the futex wait — a worker that
    holds an epoch value older than its group's epoch while it is not blocked never blocks as long as
    it holds that value, whatever all threads do; every epoch bump makes the values held by the workers
    of the group old (`C07_bump_makes_stale_partial`), and held values never exceed the epoch
    (`C07_expected_le_epoch_partial`);
  * `C07_sleeper_state_partial`: whoever is blocked on a group futex is a worker of that group in the
    timed wait of `waitFor`, and it blocked with the epoch it holds;
  * `C07_wake_releases_waiter_partial`: a futex wake for `n ≥ 1` (claimAndWakeOne: 1) with at least one
    member blocked releases `min n waiters` members, each of which continues in `waitFor` (re-reads the
    epoch, runs exitSleep) without a time-out;
  * `C07_mask_sound_partial`, `C07_claim_targets_sleeper_partial` (one thread per pool thread index,
    `G ≤ 64`): a set sleep bit means its worker is inside its sleep window, and a successful claim hits such
    a worker and goes on to bump and wake (one arbitrary member).
-/
namespace Dispenso.Wake
open Dispenso.Conc

/-- **C07 (partial)**: values held by workers never exceed the epoch word of their group. -/
theorem C07_expected_le_epoch_partial (N G : Nat) (s : State (proto N G))
    (hr : Reachable (init N G) s) (u : TId) (i : Nat) (e : Int) (hw : wE (s.loc u) = some (i, e)) :
    e ≤ s.mem (fEpoch (i / G)) :=
  (inv_reachable hr).eLe u i e hw

/-- **C07 (partial)**: a bump of a group's epoch (`bump`, `bumpAndWake`, `bumpAndWakeN`,
`bumpAndWakeAll`: the fetch_add precedes the futex wake) makes every value held by a worker of the
group old. -/
theorem C07_bump_makes_stale_partial (N G : Nat) (s s' : State (proto N G))
    (hr : Reachable (init N G) s) (t u : TId) (i : Nat) (e : Int)
    (hop : op N G (s.loc t) = some (.fadd (fEpoch (i / G)) 1)) (he : exec s (.step t) = some s')
    (hw : wE (s.loc u) = some (i, e)) : e < s'.mem (fEpoch (i / G)) := by
  have hle := (inv_reachable hr).eLe u i e hw
  obtain ⟨_, rfl⟩ := exec_step_mem (f := fEpoch (i / G)) (v := s.mem (fEpoch (i / G)) + 1)
    (r := s.mem (fEpoch (i / G))) he hop (by simp [memEffect])
  simp
  omega

/-- **C07 (partial)**: the epoch check.  From any state in which worker `u` is not blocked and a value `e`
(the one it holds) is older than the epoch of group `i / G`, along every continuation (any actions of any threads,
including time-outs and spurious returns) `u` is not blocked in any state in which it still holds `e`.
Since the value passed to `waitFor` is the one read before `enterSleep`, a bump that happens after the
worker decided to sleep — in particular between `enterSleep` and the futex wait — cannot be missed. -/
theorem C07_epoch_guard_partial (N G : Nat) (s s' : State (proto N G)) (u : TId) (i : Nat) (e : Int)
    (as : List (Act (proto N G))) (hrun : run s as = some s')
    (hp : s.parked u = none) (hlt : e < s.mem (fEpoch (i / G))) :
    e < s'.mem (fEpoch (i / G)) ∧ (wE (s'.loc u) = some (i, e) → s'.parked u = none) :=
  guard_run as hrun hlt (fun _ => hp)

/-- **C07 (partial)**: whoever is blocked on a futex is a worker in the timed futex wait of
`waitFor` on its own group's epoch word, holding a value that is at most the epoch; and a futex wait
blocks only when the epoch equals the value held. -/
theorem C07_sleeper_state_partial (N G : Nat) (s : State (proto N G)) (hr : Reachable (init N G) s) :
    (∀ u f b, s.parked u = some (f, b) →
      ∃ i e, s.loc u = L.wWait i e ∧ f = fEpoch (i / G) ∧ i < N ∧ e ≤ s.mem f) ∧
    (∀ u s', exec s (.step u) = some s' → s'.parked u ≠ none →
      ∃ i e, s.loc u = L.wWait i e ∧ s.mem (fEpoch (i / G)) = e) := by
  have I := inv_reachable hr
  refine ⟨fun u f b hp => ?_, fun u s' he hp => ?_⟩
  · obtain ⟨_, i, e, hl, rfl⟩ := I.pk u f b hp
    exact ⟨i, e, hl, rfl, I.idx u i (by rw [hl]; rfl), I.eLe u i e (by rw [hl]; rfl)⟩
  · obtain ⟨hpt, o, ho, hc⟩ := exec_step_gen he
    replace ho : op N G (s.loc u) = some o := ho
    rcases hc with ⟨f, e, b, rfl, hm, rfl⟩ | ⟨_, _, _, _, _, rfl⟩ | ⟨_, _, rfl⟩ | ⟨_, _, _, _, rfl⟩
    · obtain ⟨i, hl, rfl, rfl⟩ := op_fwait ho
      exact ⟨i, e, hl, hm⟩
    · simp [hpt] at hp
    · simp [hpt] at hp
    · simp [hpt] at hp

/-- **C07 (partial)**: a futex wake is never lost on a waiter that is already blocked: a wake for
`n ≥ 1` waiters (claimAndWakeOne: `n = 1`; cascadeWake / wakeRange / cascadeWakeSeed: the number of set
mask bits; wakeAll: INT_MAX) on a futex word with at least one blocked member releases at least one of
them (exactly `n` if that many are blocked, else all), and every released thread is a worker of that group
that continues inside `waitFor` (epoch re-load, then exitSleep) without having timed out. -/
theorem C07_wake_releases_waiter_partial (N G : Nat) (s s' : State (proto N G))
    (hr : Reachable (init N G) s) (t : TId) (ws : List TId) (he : exec s (.wake t ws) = some s') :
    ∃ f n, op N G (s.loc t) = some (.fwake f n) ∧
      (1 ≤ n → parkedOn s f ≠ [] → ws ≠ []) ∧
      (ws.length = n ∨ ∀ u ∈ parkedOn s f, u ∈ ws) ∧
      (∀ u ∈ ws, s'.parked u = none ∧ ∃ i e, s.loc u = L.wWait i e ∧
        s'.loc u = L.wE3 i ∧ f = fEpoch (i / G)) := by
  have I := inv_reachable hr
  obtain ⟨hpt, f, n, ho, hnd, hsub, hle, hall, htw, rfl⟩ := exec_wake_gen he
  refine ⟨f, n, ho, fun hn hne hws => ?_, ?_, fun u hu => ?_⟩
  · subst hws
    have := hall (by simp only [List.length_nil]; omega)
    cases hpo : parkedOn s f with
    | nil => exact hne hpo
    | cons v vs =>
      have := this v (by rw [hpo]; exact List.mem_cons_self)
      cases this
  · by_cases hlt : ws.length < n
    · exact Or.inr (hall hlt)
    · exact Or.inl (by omega)
  · obtain ⟨_, b, hb⟩ := (mem_parkedOn s f u).mp (hsub u hu)
    obtain ⟨_, i, e, hl, hf⟩ := I.pk u f b hb
    have hut : u ≠ t := fun h => htw (h ▸ hu)
    refine ⟨by simp [unparkAll_parked, hu], i, e, hl, ?_, hf⟩
    · simp only [setLoc_loc, if_neg hut]
      rw [unparkAll_loc s ws hnd u, if_pos hu, hl]
      rfl


/-- **C07 (partial)**: soundness of the sleep masks.  When every pool thread index is run by one
thread (`RReach`: the pool's usage of `PoolWakeState`), group sizes up to 64: a set bit `b` of group `g`'s
sleep mask is below the group size, and the worker of pool thread `g * G + b` is inside its sleep window
(after its own `fetch_or` in enterSleep and before its own `fetch_and` in exitSleep: about to re-check
`running`, inside `waitFor`, blocked, or returning); masks never become negative (64-bit words). Wakers
only clear bits, so a waker that counts set bits never counts a thread that is outside its window. -/
theorem C07_mask_sound_partial (N G : Nat) (hG : 1 ≤ G) (hG64 : G ≤ 64) (s : State (proto N G))
    (hr : RReach s) (g b : Nat) (hb : (s.mem (fMask g)).toNat.testBit b = true) :
    b < G ∧ 0 ≤ s.mem (fMask g) ∧
      ∃ u, inWin (s.loc u) = some (g * G + b) ∧ ∀ v, widx (s.loc v) = some (g * G + b) → v = u := by
  have M := minv_rreach hG hG64 hr
  obtain ⟨hbG, u, hu⟩ := M.snd g b hb
  exact ⟨hbG, M.nonneg g, u, hu, fun v hv => M.uniq v u _ hv (inWin_widx hu)⟩

/-- **C07 (partial)**: a successful claim targets a sleeper.  When `tryClaimSleeper` inside
claimAndWakeOne finds the bit set (the call goes on to bump, wake one waiter of the group and return
`idx`), the worker of pool thread `idx` was inside its sleep window at that moment; the claim then
executes `fetch_add` on that group's epoch, a futex wake for one waiter, and returns `idx`. -/
theorem C07_claim_targets_sleeper_partial (N G : Nat) (hG : 1 ≤ G) (hG64 : G ≤ 64)
    (s s' : State (proto N G)) (hr : RReach s) (t : TId) (g gi m : Nat)
    (hl : s.loc t = L.cClaim g gi m) (he : exec s (.step t) = some s')
    (hc : s'.loc t = L.cBump g (g * G + ctz m)) :
    (∃ u, inWin (s.loc u) = some (g * G + ctz m)) ∧
    (∀ r, cont N G (L.cBump g (g * G + ctz m)) r = L.cWake g (g * G + ctz m)) ∧
    op N G (L.cBump g (g * G + ctz m)) = some (.fadd (fEpoch ((g * G + ctz m) / G)) 1) ∧
    op N G (L.cWake g (g * G + ctz m)) = some (.fwake (fEpoch ((g * G + ctz m) / G)) 1) ∧
    (∀ r, cont N G (L.cWake g (g * G + ctz m)) r = L.cNext g (g * G + ctz m)) ∧
    (∀ r, cont N G (L.cNext g (g * G + ctz m)) r = L.ret ((g * G + ctz m : Nat) : Int)) := by
  refine ⟨?_, fun _ => rfl, rfl, rfl, fun _ => rfl, fun _ => rfl⟩
  have M := minv_rreach hG hG64 hr
  have ho : (proto N G).op (s.loc t) =
      some (.fand (fMask ((g * G + ctz m) / G)) (clearOf ((g * G + ctz m) % G))) := by rw [hl]; rfl
  obtain ⟨_, rfl⟩ := exec_step_mem (f := fMask ((g * G + ctz m) / G))
    (v := band (s.mem (fMask ((g * G + ctz m) / G))) (clearOf ((g * G + ctz m) % G)))
    (r := s.mem (fMask ((g * G + ctz m) / G))) he ho (by simp [memEffect])
  simp only [setLoc_loc, if_pos, setMem_loc] at hc
  rw [hl] at hc
  have hbit : (s.mem (fMask ((g * G + ctz m) / G))).toNat.testBit ((g * G + ctz m) % G) = true := by
    apply Classical.byContradiction
    intro hn
    have hn' : (s.mem (fMask ((g * G + ctz m) / G))).toNat.testBit ((g * G + ctz m) % G) = false := by
      simpa using hn
    have : cont N G (L.cClaim g gi m) (s.mem (fMask ((g * G + ctz m) / G))) =
        afterMask N G g gi (m &&& (m - 1)) := by
      show (if _ then _ else _) = _
      rw [if_neg (by rw [hn']; simp)]
    rw [this] at hc
    unfold afterMask at hc
    split at hc
    · cases hc
    · split at hc <;> cases hc
  obtain ⟨_, u, hu⟩ := M.snd _ _ hbit
  rw [Nat.div_add_mod'] at hu
  exact ⟨u, hu⟩

/-! ## Why C07 does not hold: the wake goes to an arbitrary member of the group -/

def obsClaim (s : State (proto 2 2)) : Bool :=
  decide (s.loc 3 = L.ret 0) && decide (s.loc 1 = L.wWait 0 0) &&
  decide (s.parked 1 = some (fEpoch 0, true)) && decide (s.mem (fEpoch 0) = 1) &&
  decide (s.mem (fMask 0) = 0) && decide (s.loc 2 = L.wIdle 1 1) &&
  decide (s.threads = [3, 2, 1]) &&
  s.threads.all (fun t => decide (t ≠ 1 → s.parked t = none ∧ op 2 2 (s.loc t) = none))

/-- **C07 (negative witness)**: both workers of a group are parked; `claimAndWakeOne` claims pool
thread 0 and returns 0 (the caller then pushes its task to the ring / steal ring of pool thread 0), but
its futex wake was delivered to pool thread 1.  Reachable state: `claimAndWakeOne` has returned 0, pool
thread 0 (thread 1) is still blocked on the group futex holding epoch 0 (the epoch is 1), its sleep-mask
bit is clear, so no later wake call will count it, pool thread 1 is back in its loop (it polls only its own
ring and the central queue), and no thread has a pending operation: work addressed to pool thread 0 waits
for its sleep backstop (or for another submission). -/
theorem C07_claimed_worker_stays_parked :
    ∃ s : State (proto 2 2), Reachable (init 2 2) s ∧ s.loc 3 = L.ret 0 ∧ s.loc 1 = L.wWait 0 0 ∧
      s.parked 1 = some (fEpoch 0, true) ∧ s.mem (fEpoch 0) = 1 ∧ s.mem (fMask 0) = 0 ∧
      s.loc 2 = L.wIdle 1 1 ∧ s.threads = [3, 2, 1] ∧
      (∀ t ∈ s.threads, t ≠ 1 → s.parked t = none ∧ op 2 2 (s.loc t) = none) := by
  have w : (run (init 2 2) (parkBoth _ rfl ++ claimWrong _ rfl)).map obsClaim = some true := by decide
  obtain ⟨s, hr, ho⟩ := exists_of_run_obs obsClaim w
  simp only [obsClaim, Bool.and_eq_true, decide_eq_true_eq, List.all_eq_true] at ho
  obtain ⟨⟨⟨⟨⟨⟨⟨h1, h2⟩, h3⟩, h4⟩, h5⟩, h6⟩, h7⟩, h8⟩ := ho
  exact ⟨s, hr, h1, h2, h3, h4, h5, h6, h7, h8⟩

/-- thread 3 calls wakeRange(1) (a bulk submission of one task, pushed to ring 0): the mask restricted
to the first thread has one bit, so one member is woken — the futex picks pool thread 1 -/
def rangeWrong : List (Act (proto 2 2)) :=
  [.call 3 (L.rMask 0 1 false), .step 3, .step 3, .wake 3 [2], .step 2, .step 2, .step 2]

def obsRange (s : State (proto 2 2)) : Bool :=
  decide (s.loc 3 = L.ret 0) && decide (s.loc 1 = L.wWait 0 0) &&
  decide (s.parked 1 = some (fEpoch 0, true)) && decide (s.mem (fEpoch 0) = 1) &&
  decide (s.mem (fMask 0) = 1) && decide (s.loc 2 = L.wIdle 1 1) &&
  s.threads.all (fun t => decide (t ≠ 1 → s.parked t = none ∧ op 2 2 (s.loc t) = none))

/-- **C07 (negative witness, known finding 1)**: the ring fast path pushes task `i` to ring `i` and
calls `cascadeWakeSeed(count)` / `wakeRange(count)`, which wakes as many members as the first `count`
threads have sleep bits — but not those members.  With both workers parked, `wakeRange(1)` returns
after releasing pool thread 1; pool thread 0, whose ring holds the task, stays blocked (its bit still
set) and nobody has a pending operation. -/
theorem C07_range_wake_releases_wrong_member :
    ∃ s : State (proto 2 2), Reachable (init 2 2) s ∧ s.loc 3 = L.ret 0 ∧ s.loc 1 = L.wWait 0 0 ∧
      s.parked 1 = some (fEpoch 0, true) ∧ s.mem (fEpoch 0) = 1 ∧ s.mem (fMask 0) = 1 ∧
      s.loc 2 = L.wIdle 1 1 ∧
      (∀ t ∈ s.threads, t ≠ 1 → s.parked t = none ∧ op 2 2 (s.loc t) = none) := by
  have w : (run (init 2 2) (parkBoth _ rfl ++ rangeWrong)).map obsRange = some true := by decide
  obtain ⟨s, hr, ho⟩ := exists_of_run_obs obsRange w
  simp only [obsRange, Bool.and_eq_true, decide_eq_true_eq, List.all_eq_true] at ho
  obtain ⟨⟨⟨⟨⟨⟨h1, h2⟩, h3⟩, h4⟩, h5⟩, h6⟩, h7⟩ := ho
  exact ⟨s, hr, h1, h2, h3, h4, h5, h6, h7⟩

/-! ## Non-vacuity -/

/-- the worker-identity contract (`RReach`) is satisfiable by real schedules: after `parkBoth` both
workers are blocked and both sleep bits are set -/
example : ∃ s : State (proto 2 2), RReach s ∧ (s.mem (fMask 0)).toNat.testBit 0 = true ∧
    (s.mem (fMask 0)).toNat.testBit 1 = true ∧ s.parked 1 ≠ none ∧ s.parked 2 ≠ none := by
  have w : (runR (init 2 2) (parkBoth _ rfl)).map (fun s =>
      (s.mem (fMask 0)).toNat.testBit 0 && (s.mem (fMask 0)).toNat.testBit 1 &&
      decide (s.parked 1 ≠ none) && decide (s.parked 2 ≠ none)) = some true := by decide
  obtain ⟨s, hr, ho⟩ := exists_of_runR_obs _ w
  simp only [Bool.and_eq_true, decide_eq_true_eq] at ho
  exact ⟨s, hr, ho.1.1.1, ho.1.1.2, ho.1.2, ho.2⟩

/-- soundness is one-directional: after the claim whose wake went to the other member the mask is empty
while pool thread 0 is still inside its sleep window -/
example : ∃ s : State (proto 2 2), RReach s ∧ s.mem (fMask 0) = 0 ∧ inWin (s.loc 1) = some 0 := by
  have w : (runR (init 2 2) (parkBoth _ rfl ++ claimWrong _ rfl)).map (fun s =>
      decide (s.mem (fMask 0) = 0) && decide (inWin (s.loc 1) = some 0)) = some true := by decide
  obtain ⟨s, hr, ho⟩ := exists_of_runR_obs _ w
  simp only [Bool.and_eq_true, decide_eq_true_eq] at ho
  exact ⟨s, hr, ho.1, ho.2⟩


/-- the epoch guard applies in a real race: pool thread 0 has run enterSleep and the running re-check
(it is about to call waitFor with epoch 0) when claimAndWakeOne claims it and bumps the epoch; the
hypotheses of `C07_epoch_guard_partial` hold there, and indeed its `waitFor` returns at the first load
(`wAnd 0 1`: exitSleep with the new epoch 1) although the futex wake found nobody to release -/
example : ((run (init 2 2)
    [.call 1 (L.wCur 0), .step 1, .call 1 (L.wRun 0 0), .step 1, .call 1 (L.wOr 0 0), .step 1, .step 1, .step 1,
     .call 3 L.cTot, .step 3, .step 3, .step 3, .step 3, .step 3]).map
    fun s => ((s.loc 1 : L), s.parked 1, decide ((0 : Int) < s.mem (fEpoch 0)))) =
    some (L.wE1 0 0, none, true) := by decide

example : ((run (init 2 2)
    [.call 1 (L.wCur 0), .step 1, .call 1 (L.wRun 0 0), .step 1, .call 1 (L.wOr 0 0), .step 1, .step 1, .step 1,
     .call 3 L.cTot, .step 3, .step 3, .step 3, .step 3, .step 3, .wake 3 [], .step 3, .step 1]).map
    fun s => ((s.loc 1 : L), (s.loc 3 : L), s.parked 1)) = some (L.wAnd 0 1, L.ret 0, none) := by decide

/-- a wake that does release the claimed member: `wake 3 [1]` -/
example : ((run (init 2 2) (parkBoth _ rfl ++
    [.call 3 L.cTot, .step 3, .step 3, .step 3, .step 3, .step 3, .wake 3 [1]])).map
    fun s => ((s.loc 1 : L), s.parked 1, s.parked 2)) =
    some (L.wE3 0, none, some (fEpoch 0, true)) := by decide

end Dispenso.Wake
