import DispensoVerif.Proofs.ParForExec
import DispensoVerif.Props.C48

/-!
# C14 — `parallel_for` never uses one state object concurrently

Model: `Model/ParForExec.lean`.  A call consists of `W` actors (the scheduled tasks and, with
`wait = true`, the caller's own share); actor `a` is bound to `states[a]`; a separately invoked
granularity tail uses `states[0]` and is run by the caller after the barrier (`wait = true`) or by
the worker that draws the last exit ticket (`wait = false`, dynamic paths); the static `wait = false`
path has no separate tail (it is folded into the last chunk, `Model/ParFor.lean`).
`Reachable S s`: `s` is reachable under *some* interleaving of the actors, the calling thread and the
task set's `wait()`; the theorems hold for every reachable state, i.e. for every interleaving, every
number of actors and chunks (`S` arbitrary), and in particular for the system `sysOf c` of every
configuration `c`.

"Until the task set's `wait()` returns": `waitDone` is enabled only when every actor is done
(`C14_until_wait`), so the states in which an invocation is active all lie before it, and the
exclusion theorems cover them, `wait = false` included.
-/
namespace Dispenso.ParForExec
open Dispenso Dispenso.ParFor

/-- **C14** two different actors never use the same element of `states` at the same time, and while
the calling thread runs the tail no actor uses any element — in every reachable state of every
system (static / dynamic / multi-group dynamic / stripes, `wait` true or false, any sizes). -/
theorem C14_exclusive (S : Sys) (s : St) (r : Reachable S s) :
    (∀ a b i j, a ≠ b → uses s a = some i → uses s b = some j → i ≠ j) ∧
    (callerUses s ≠ none → ∀ a, uses s a = none) := by
  have h := inv_reachable r
  refine ⟨fun a b i j => exclusive_actors h a b i j, ?_⟩
  intro hc a
  have hin : s.caller = .inTail := by
    unfold callerUses at hc
    by_contra hne; rw [if_neg hne] at hc; exact hc rfl
  have hall := caller_tail_alone h hin
  unfold uses
  by_cases ha : a < S.W
  · rw [hall a ha]
  · have : s.pc a = .ready := by
      by_contra hp; exact ha (h.rng a hp)
    rw [this]

/-- **C14** the invocation that covers the granularity tail overlaps no other invocation at all:
while an actor (the last worker of a `wait = false` dynamic loop) is inside it, every other actor has
left its loop for good. -/
theorem C14_tail_alone (S : Sys) (s : St) (r : Reachable S s) (a : Nat) (ha : s.pc a = .tail) :
    ∀ b, b ≠ a → uses s b = none ∧ ((∃ t, s.pc b = .exited t) ∨ s.pc b = .done ∨ S.W ≤ b) := by
  have h := inv_reachable r
  intro b hne
  by_cases hb : b < S.W
  · rcases tail_alone h a b ha hb hne with ⟨t, h1⟩ | h1
    · exact ⟨by unfold uses; rw [h1], Or.inl ⟨t, h1⟩⟩
    · exact ⟨by unfold uses; rw [h1], Or.inr (Or.inl h1)⟩
  · have : s.pc b = .ready := by
      by_contra hp; exact hb (h.rng b hp)
    exact ⟨by unfold uses; rw [this], Or.inr (Or.inr (by omega))⟩

/-- **C14** the tail is invoked at most once. -/
theorem C14_tail_once (S : Sys) (s : St) (r : Reachable S s) : s.tails ≤ 1 :=
  tails_le_one (inv_reachable r)

/-- **C14** (`wait = false` included) the task set's `wait()` returns only after every actor has
finished, and by then the tail — if there is one — has been run exactly once: all invocations,
the tail included, lie before that return. -/
theorem C14_until_wait (S : Sys) (wf : S.WF) (s : St) (r : Reachable S s) (hw : s.waited = true) :
    (∀ a, a < S.W → s.pc a = .done) ∧ (∀ a, uses s a = none) ∧ callerUses s = none ∧
    s.tails = if S.hasTail = true then 1 else 0 := by
  have h := inv_reachable r
  obtain ⟨hc, hall⟩ := h.wt hw
  refine ⟨hall, ?_, ?_, tails_final wf h hall (fun _ => hc)⟩
  · intro a
    unfold uses
    by_cases ha : a < S.W
    · rw [hall a ha]
    · have : s.pc a = .ready := by
        by_contra hp; exact ha (h.rng a hp)
      rw [this]
  · unfold callerUses; rw [hc]; rfl

/-- **C14** with `wait = true` all of that holds already when `parallel_for` returns. -/
theorem C14_return_wait (S : Sys) (wf : S.WF) (s : St) (r : Reachable S s) (hw : S.wait = true)
    (hc : s.caller = .returned) :
    (∀ a, a < S.W → s.pc a = .done) ∧ s.tails = if S.hasTail = true then 1 else 0 := by
  have h := inv_reachable r
  have hall := h.call hw (by rw [hc]; intro x; cases x)
  exact ⟨hall, tails_final wf h hall (fun _ => hc)⟩

/-! ### the system of a configuration, the size of the container -/

theorem sysOf_wf (c : Cfg) : (sysOf c).WF := by
  obtain ⟨_, _, hstr, hdyn⟩ := plan_facts c
  have hkind : (sysOf c).tailByWorker = true → (plan c).mode = .dynamic := by
    intro h
    unfold Sys.tailByWorker sysOf at h
    dsimp only at h
    cases hm : (plan c).mode with
    | dynamic => rfl
    | none => rw [hm] at h; simp at h
    | serial => rw [hm] at h; simp at h
    | static_ => rw [hm] at h; simp at h
    | stripes => rw [hm] at h; simp at h
  constructor
  · intro h
    have := hdyn (hkind h)
    show 1 ≤ (plan c).tasks.toNat
    omega
  · intro h
    have hts : tailSep c = true := h
    cases hw : c.wait with
    | true => left; show (c.wait || _ || _) = true; rw [hw]; rfl
    | false =>
      right
      unfold tailSep at hts
      rw [hw] at hts
      have hm : (plan c).mode = .dynamic := by
        cases hm : (plan c).mode with
        | dynamic => rfl
        | stripes => have := hstr hm; rw [hw] at this; cases this
        | none => rw [hm] at hts; simp at hts
        | serial => rw [hm] at hts; simp at hts
        | static_ => rw [hm] at hts; simp at hts
      unfold Sys.tailByWorker sysOf
      dsimp only
      rw [hm, hw]
      have : tailSep c = true := h
      rw [this]
      split_ifs <;> rfl

/-- **C14** every element an invocation of configuration `c` uses exists in the container the call
leaves behind (`prev` elements before the call, `reuse` = `reuseExistingState`). -/
theorem C14_index_in_container (c : Cfg) (prev : Nat) (reuse : Bool) (s : St)
    (r : Reachable (sysOf c) s) :
    (∀ a i, uses s a = some i → i < statesAfter c prev reuse) ∧
    (∀ i, callerUses s = some i → i < statesAfter c prev reuse) := by
  have h := inv_reachable r
  obtain ⟨hnone, hpos, _, _⟩ := plan_facts c
  have hW : (sysOf c).W = statesNeeded c := rfl
  have key : 1 ≤ (sysOf c).W → (sysOf c).W ≤ statesAfter c prev reuse := by
    intro h1
    have hm : (plan c).mode ≠ .none := by
      intro hm
      have h0 := hnone.mp hm
      have : (plan c).tasks = 0 := by
        unfold plan; rw [if_pos h0]
      have : (sysOf c).W = 0 := by show (plan c).tasks.toNat = 0; rw [this]; rfl
      omega
    unfold statesAfter
    rw [if_neg hm, ← hW]
    split_ifs <;> omega
  constructor
  · intro a i hu
    have := uses_lt h a i hu
    have := key (by omega)
    omega
  · intro i hu
    unfold callerUses at hu
    split_ifs at hu with hc
    cases hu
    have hht : (sysOf c).hasTail = true := h.ctl (Or.inr hc)
    have hts : tailSep c = true := hht
    have hm : (plan c).mode ≠ .none := by
      intro hm; unfold tailSep at hts; rw [hm] at hts; simp at hts
    have hlt : c.start < c.stop := by
      by_contra hge; exact hm (hnone.mpr (by omega))
    have := hpos hlt
    have hW1 : 1 ≤ (sysOf c).W := by show 1 ≤ (plan c).tasks.toNat; omega
    have := key hW1
    omega

/-- **C14** after a call over a non-empty range the container holds at least one element. -/
theorem C14_states_nonempty (c : Cfg) (h : c.start < c.stop) (prev : Nat) (reuse : Bool) :
    1 ≤ statesAfter c prev reuse := by
  obtain ⟨hnone, hpos, _, _⟩ := plan_facts c
  have hm : (plan c).mode ≠ .none := by intro hm; have := hnone.mp hm; omega
  have := hpos h
  unfold statesAfter statesNeeded
  rw [if_neg hm]
  split_ifs <;> omega

/-- **C14** … and no more than the call needs: one per loop task, hence at most
`max(maxThreads, 1)` (as the option is read: uint32 → int32) and at most pool threads + 1, unless
`reuseExistingState` keeps a larger container. -/
theorem C14_states_bound (c : Cfg) (prev : Nat) (reuse : Bool) :
    (statesNeeded c : Int) ≤ max (clampMaxThreads c.maxThreads) 1 ∧
    (statesNeeded c : Int) ≤ (c.poolThreads : Int) + 1 ∧
    statesAfter c prev reuse ≤ max prev (statesNeeded c) ∧
    (reuse = false → c.start < c.stop → statesAfter c prev reuse = statesNeeded c) := by
  obtain ⟨hnone, _, _, _⟩ := plan_facts c
  have h1 := (C48_tasks_bound c).1
  have h2 := C48_tasks_pool c
  have hcl := clamp_pos c.maxThreads
  refine ⟨?_, ?_, ?_, ?_⟩
  · unfold statesNeeded; omega
  · unfold statesNeeded; omega
  · unfold statesAfter; split_ifs <;> omega
  · intro hr hlt
    have hm : (plan c).mode ≠ .none := by intro hm; have := hnone.mp hm; omega
    unfold statesAfter
    rw [if_neg hm, hr]; rfl

/-- an empty range returns before `initStates`: the container is left as it was (so an empty
container stays empty — the "at least one element" part of C14 is about calls that invoke the body) -/
theorem C14_empty_range_untouched (c : Cfg) (h : c.stop ≤ c.start) (prev : Nat) (reuse : Bool) :
    statesAfter c prev reuse = prev ∧ (sysOf c).W = 0 := by
  have hm : (plan c).mode = .none := (plan_facts c).1.mpr h
  constructor
  · unfold statesAfter; rw [if_pos hm]
  · show (plan c).tasks.toNat = 0
    unfold plan; rw [if_pos h]; rfl

/-! ### non-vacuity: concrete interleavings of concrete configurations -/

/-- adaptive, `wait = false`, granularity 4 over `[0, 23)`: 2 workers, 5 chunks, tail `[20, 23)` -/
def exNoWaitTail : Cfg :=
  { ty := ⟨32, true⟩, start := 0, stop := 23, chunk := 0, maxThreads := 8, wait := false,
    minItemsPerChunk := 1, granularity := 4, poolThreads := 2, recursive := false }

example : sysOf exNoWaitTail =
    { kind := .dynamic, W := 2, numChunks := 5, wait := false, hasTail := true } := by decide
example : (sysOf exNoWaitTail).tailByWorker = true ∧ (sysOf exNoWaitTail).lastExit = 6 := by decide

/-- two bodies on different states at once; later worker 1 leaves first (ticket 5), worker 0 draws
the last exit ticket 6 and runs the tail on `states[0]` after the call has long returned -/
def exRun1 : List Act :=
  [.pick 0 0, .pick 1 1, .begin 0, .begin 1, .ret, .end_ 1, .pick 1 2, .begin 1, .end_ 1, .pick 1 3,
   .begin 1, .end_ 1, .pick 1 4, .begin 1, .end_ 0, .end_ 1, .leave 1, .exitStep 1, .leave 0, .exitStep 0]

example : ((run (sysOf exNoWaitTail) St.init (exRun1.take 4)).map
    fun s => (uses s 0, uses s 1)) = some (some 0, some 1) := by decide
example : ((run (sysOf exNoWaitTail) St.init exRun1).map
    fun s => (s.pc 0, s.pc 1, uses s 0, s.tails, s.caller, s.index)) =
    some (.tail, .done, some 0, 1, .returned, 7) := by decide
/-- `wait()` cannot return while the tail runs, and does after it -/
example : ((run (sysOf exNoWaitTail) St.init (exRun1 ++ [.waitDone])).map fun s => s.waited) = none := by
  decide
example : ((run (sysOf exNoWaitTail) St.init (exRun1 ++ [.endTail 0, .waitDone])).map
    fun s => (s.waited, s.tails)) = some (true, 1) := by decide
/-- worker 0 cannot start the tail while worker 1 is still in a body: its exit ticket is then 5 -/
example : ((run (sysOf exNoWaitTail) St.init
    [.pick 0 0, .pick 1 1, .begin 0, .begin 1, .end_ 0, .pick 0 2, .begin 0, .end_ 0, .pick 0 3, .begin 0,
     .end_ 0, .pick 0 4, .begin 0, .end_ 0, .leave 0, .exitStep 0]).map
    fun s => (s.pc 0, s.pc 1)) = some (.done, .body 1) := by decide

/-- static with the tail run by the caller after the barrier (`wait = true`) -/
example : sysOf exStaticTail =
    { kind := .static_, W := 4, numChunks := 4, wait := true, hasTail := true } := by decide
example : ((run (sysOf exStaticTail) St.init
    [.pick 0 0, .pick 3 3, .begin 3, .begin 0, .pick 1 1, .begin 1, .pick 2 2, .begin 2, .end_ 0, .end_ 1,
     .end_ 2, .end_ 3, .leave 0, .leave 1, .leave 2, .leave 3, .exitStep 0, .exitStep 1, .exitStep 2,
     .exitStep 3, .barrier, .cBeginTail]).map
    fun s => (callerUses s, s.tails, uses s 0)) = some (some 0, 1, none) := by decide
/-- … the barrier is not passable while a chunk still runs -/
example : ((run (sysOf exStaticTail) St.init
    [.pick 0 0, .begin 0, .barrier]).map fun s => s.tails) = none := by decide
/-- static `wait = false`: no separate tail; stripes: three actors -/
example : sysOf exStaticFold =
    { kind := .static_, W := 4, numChunks := 4, wait := false, hasTail := false } := by decide
example : sysOf exStripes =
    { kind := .stripes, W := 3, numChunks := 6, wait := true, hasTail := true } := by decide
example : statesAfter exStripes 0 false = 3 ∧ statesAfter exStripes 5 true = 5 ∧
    statesAfter exSerial 0 false = 1 ∧ statesAfter exNoWaitTail 7 false = 2 := by decide

end Dispenso.ParForExec
