import DispensoVerif.Proofs.FutChainStep
import DispensoVerif.Proofs.WhenAll
import DispensoVerif.Proofs.WhenAny

/-!
# C19 — continuations and combinators respect readiness

Model: `DispensoVerif/Model/FutChain.lean` — `FutureImplBase::addToThenChainOrExecute` (status
check, link push by CAS loop, the post-push re-check of the status), `tryExecuteThenChain`
(detach-all CAS, walk of the detached list), `run(int)` (CAS `kNotStarted → kRunning`, store of
`kReady`, wake, `tryExecuteThenChain`) and `wait()` (which may run the antecedent inline), one model
action per atomic operation, in the generic interleaving semantics (`Core/Conc.lean`: any number
of threads, any schedule).  Field 0 is the antecedent's status, field 1 the chain head,
`fDisp k` the number of times continuation `k` has been handed to its schedulable
(`link->invoke` / the direct `sched.schedule` of the already-ready path), `fTok k` the ghost
"a `then()` call has claimed id `k`" token (each `then()` call registers a fresh continuation).

What is proved here, for every reachable state: each registered continuation is dispatched at most
once, only when the antecedent is ready, and — whether it was added before, while or after the
antecedent completed — exactly once by the time all threads have returned (as long as it is not
dispatched, some thread is still responsible for it).  That the dispatched continuation *future*
then runs its functor exactly once, and only after `copy.wait()` has returned (i.e. after the
antecedent is ready, also when somebody runs the continuation future inline before the antecedent
completed), is C18 applied to the continuation future (`C18_functor_at_most_once`,
`C18_waiter_returns_after_ready`): the wrapper built by `thenImpl` is `copy.wait(); f(copy)`.
-/
namespace Dispenso.FutChain
open Dispenso.Conc

/-- **C19.a** A continuation is dispatched at most once, in every interleaving. -/
theorem C19_dispatch_at_most_once (s : State proto) (h : Reachable init s) (k : Nat) :
    s.mem (fDisp k) = 0 ∨ s.mem (fDisp k) = 1 :=
  ((inv_reachable h).o.rg k).1

/-- **C19.b** A continuation is dispatched only when the antecedent is ready: a dispatched
continuation implies the status `kReady`, and a thread that is about to dispatch one (walking a
detached list, or on the already-ready path of `then()`) has seen / sees `kReady`. -/
theorem C19_dispatch_only_when_ready (s : State proto) (h : Reachable init s) :
    (∀ k, s.mem (fDisp k) = 1 → s.mem 0 = 2) ∧
    (∀ t cur rest, s.loc t = .twInvoke cur rest → s.mem 0 = 2) ∧
    (∀ t k, s.loc t = .adDisp k → s.mem 0 = 2) := by
  have I := inv_reachable h
  refine ⟨I.t.dr, fun t cur rest hl => ?_, fun t k hl => ?_⟩
  · have := I.t.lc t; rw [hl] at this; exact this
  · have := I.t.lc t; rw [hl] at this; exact this

/-- **C19.c** Exactly once, whenever it was added: if the antecedent is ready, `then()` has claimed
continuation `k`, and `k` has not been dispatched yet, then some thread that has not returned is
still responsible for it — it holds `k` (its adder before the push / on the direct path, or the
thread that detached it), or `k` is in the chain and a thread is going to look at the chain
(the completer before / inside `tryExecuteThenChain`, or an adder before its post-push re-check). -/
theorem C19_undispatched_has_owner (s : State proto) (h : Reachable init s) (k : Nat)
    (hr : s.mem 0 = 2) (hk : s.mem (fTok k) = 1) (hd : s.mem (fDisp k) = 0) :
    (∃ t, k ∈ holdOf (s.loc t)) ∨ (k ∈ dec (s.mem 1) ∧ ∃ t, looker (s.loc t) = true) := by
  have I := inv_reachable h
  rcases I.o.ex k hk with h1 | h1 | h1
  · omega
  · right
    refine ⟨h1, I.t.lk hr (fun h0 => ?_)⟩
    rw [h0, dec_zero] at h1; cases h1
  · exact Or.inl h1

/-- **C19.d** … hence: once every thread has returned (no pending operation anywhere), every
continuation registered on a ready antecedent has been dispatched exactly once. -/
theorem C19_dispatch_exactly_once (s : State proto) (h : Reachable init s)
    (hq : ∀ t, op (s.loc t) = none) (hr : s.mem 0 = 2) (k : Nat) (hk : s.mem (fTok k) = 1) :
    s.mem (fDisp k) = 1 := by
  rcases C19_dispatch_at_most_once s h k with hd | hd
  · exfalso
    rcases C19_undispatched_has_owner s h k hr hk hd with ⟨t, ht⟩ | ⟨_, t, ht⟩
    · have := hq t
      generalize s.loc t = pc at ht this
      cases pc <;> simp [holdOf] at ht <;> simp [op] at this
    · have := hq t
      generalize s.loc t = pc at ht this
      cases pc <;> simp [looker] at ht <;> simp [op] at this
  · exact hd

/-- **C19.e** The ids in the chain, the ids held by threads and the dispatched ids are disjoint:
every claimed id is in exactly one place, and nothing unclaimed is anywhere. -/
theorem C19_single_owner (s : State proto) (h : Reachable init s) :
    (dec (s.mem 1)).Nodup ∧
    (∀ t x, x ∈ holdOf (s.loc t) → x ∉ dec (s.mem 1)) ∧
    (∀ t u x, x ∈ holdOf (s.loc t) → x ∈ holdOf (s.loc u) → t = u) ∧
    (∀ x, (x ∈ dec (s.mem 1) ∨ ∃ t, x ∈ holdOf (s.loc t)) →
      s.mem (fTok x) = 1 ∧ s.mem (fDisp x) = 0) := by
  have I := (inv_reachable h).o
  exact ⟨I.cn, I.hc, I.hu, I.ow⟩

/-! ### non-vacuity: a continuation added before, during and after completion -/

def cView (s : State proto) : List Int × List Nat :=
  ([s.mem 0, s.mem (fDisp 1), s.mem (fDisp 2), s.mem (fDisp 3)], dec (s.mem 1))

/-- `then(1)` before the antecedent runs (pushed, found by the completer), `then(2)` while it is
running (pushed after the completer's CAS, before its store), `then(3)` after it is ready (direct
dispatch): all three counters end at 1, the chain is empty -/
example :
    ((run init
      [.call 1 (.adTake 1), .step 1, .step 1, .step 1, .step 1, .step 1,        -- then(1): pushed, re-check: not ready
       .call 0 .cpCas, .step 0,                                                  -- completer wins the CAS
       .call 2 (.adTake 2), .step 2, .step 2, .step 2, .step 2, .step 2,        -- then(2): pushed, re-check: running
       .step 0, .wake 0 [], .step 0, .step 0, .step 0, .step 0,                  -- store ready, wake, detach, walk 2, 1
       .call 3 (.adTake 3), .step 3, .step 3, .step 3]).map cView)               -- then(3): already ready
    = some ([2, 1, 1, 1], []) := by decide

/-- the race the post-push re-check is there for: the completer finds the chain empty, the adder
pushes afterwards, sees `kReady` in its re-check and dispatches its own link -/
example :
    ((run init
      [.call 1 (.adTake 1), .step 1, .step 1, .step 1,                           -- then(1): status 0, head loaded
       .call 0 .cpCas, .step 0, .step 0, .wake 0 [], .step 0,                    -- completer: ready, chain empty, returns
       .step 1, .step 1, .step 1, .step 1, .step 1]).map cView)                  -- push, re-check, detach, dispatch
    = some ([2, 1, 0, 0], []) := by decide

end Dispenso.FutChain

/-!
## when_all / when_any

Model: `DispensoVerif/Model/WhenComb.lean` — the shared counter / winner cell, the result future's
status word and the status words of the `N ≥ 1` inputs (which have been started and complete at
arbitrary times), one model action per atomic operation / futex call: an input's `notify(kReady)`,
the continuation registered on input `i` (`copy.wait()`, then `count.fetch_sub(1) == 1` resp.
`winner.compare_exchange_strong(SIZE_MAX, i)`, then possibly `shared->f()`), `run()` of the result
future with the `whenComplete` functor (by the last continuation or inline by a thread waiting on
the result), `wait()` / `is_ready()` / `get()` on the result.  Assumption carried by the model:
each registered continuation is invoked at most once (when_all: ghost token per input) — that is
C19.a–d for the inputs' then-chains plus C18 for the continuation futures.  Empty ranges return
`make_ready_future` directly and are not modelled; that the result vector / tuple holds the inputs
*in input order* is sequential container code (`vec(first, last)`, `std::make_tuple`), checked by
the harness oracle (identity of the shared states, position by position), not by a theorem.
The task-set variants create the result future through `TaskSetInterceptionInvoker`, i.e. with
`taskSetCounter_` set: that the set's count is decremented only after the result is ready is
`C18_taskset_counter`.
-/
namespace Dispenso.WhenComb
open Dispenso.Conc

/-- **C19.f** `when_all`: the result future becomes ready only after all inputs are ready — in
every reachable state, for every interleaving of input completions, continuations, the result's
closure and inline waiters. -/
theorem C19_when_all_ready_after_all_inputs (N : Nat) (hN : 1 ≤ N) (s : State (All.proto N))
    (h : Reachable (All.init N) s) (hr : s.mem 1 = 2) : ∀ j, j < N → s.mem (fIn j) = 2 :=
  (All.inv_reachable hN h).rs hr

/-- **C19.g** `when_all`: the shared count is the number of inputs whose continuation has not yet
decremented it, and a continuation decrements only after its input is ready: every input is ready
or its decrement is still outstanding.  (So the count reaches 0 only when all inputs are ready.) -/
theorem C19_when_all_count (N : Nat) (hN : 1 ≤ N) (s : State (All.proto N))
    (h : Reachable (All.init N) s) :
    s.mem 0 = (All.csum (N := N) s : Int) ∧
    (∀ i, i < N → All.hold (N := N) s i ∨ s.mem (fIn i) = 2) ∧
    (s.mem 0 = 0 → ∀ i, i < N → s.mem (fIn i) = 2) := by
  have I := All.inv_reachable hN h
  refine ⟨I.cnt, I.pp, fun h0 i hi => ?_⟩
  have hz : All.csum (N := N) s = 0 := by have := I.cnt; omega
  rcases I.pp i hi with h1 | h1
  · exact absurd h1 (All.csum_zero hz i hi)
  · exact h1

/-- **C19.h** `when_any`: when the result future is ready its value is the winner cell, which is
the index of an input that is ready. -/
theorem C19_when_any_result_is_ready_input (N : Nat) (hN : 1 ≤ N) (s : State (Any.proto N))
    (h : Reachable (Any.init N) s) (hr : s.mem 1 = 2) :
    s.mem 2 = s.mem 0 ∧ 0 ≤ s.mem 0 ∧ s.mem 0 < N ∧ s.mem (fIn (s.mem 0).toNat) = 2 := by
  have I := Any.inv_reachable hN h
  obtain ⟨h2, hw⟩ := I.rs hr
  rcases I.wn with h0 | ⟨a, b, c⟩
  · exact absurd h0 hw
  · exact ⟨h2, a, b, c⟩

/-- **C19.i** `when_any`: the winner, once set, is the index of a ready input and never changes
(it is only ever written by a CAS from `SIZE_MAX`). -/
theorem C19_when_any_winner (N : Nat) (hN : 1 ≤ N) (s : State (Any.proto N))
    (h : Reachable (Any.init N) s) :
    s.mem 0 = -1 ∨ (0 ≤ s.mem 0 ∧ s.mem 0 < N ∧ s.mem (fIn (s.mem 0).toNat) = 2) :=
  (Any.inv_reachable hN h).wn

/-! ### non-vacuity -/

def allView (s : State (All.proto 2)) : List Int := [s.mem 0, s.mem 1, s.mem (fIn 0), s.mem (fIn 1)]

/-- two inputs complete one after the other; the second continuation finds the count at 1, runs the
result's closure, whose loop sees the count at 0: result ready, both inputs ready -/
example :
    ((run (All.init 2)
      [.call 0 (.inStore 0), .step 0, .wake 0 [], .call 0 (.pbLoad 0), .step 0,
       .call 0 (.ctTake 0), .step 0, .step 0,
       .call 1 (.inStore 1), .step 1, .wake 1 [], .call 1 (.pbLoad 1), .step 1,
       .call 1 (.ctTake 1), .step 1, .step 1,
       .step 1, .step 1, .step 1, .wake 1 []]).map allView)
    = some [0, 2, 2, 2] := by decide

def anyView (s : State (Any.proto 2)) : List Int := [s.mem 0, s.mem 1, s.mem 2, s.mem (fIn 0), s.mem (fIn 1)]

/-- the inline path: a waiter runs the result's closure before any input is ready, blocks on input
0, is woken by its completion, claims index 0 -/
example :
    ((run (Any.init 2)
      [.call 5 .gtLoad, .step 5, .step 5, .step 5, .step 5, .step 5, .step 5,
       .call 0 (.inStore 0), .step 0, .wake 0 [5],
       .step 5, .step 5, .step 5, .step 5, .step 5, .wake 5 []]).map anyView)
    = some [0, 2, 0, 2, 1] := by decide

end Dispenso.WhenComb
