import DispensoVerif.Proofs.ConVec
import DispensoVerif.Proofs.ConVecAlloc
/-
C32 — `dispenso::ConcurrentVector<T, Traits>` used sequentially.
* Bucket layout (`firstBucketShift_ = s`): `bucketAndSubIndex` maps an index to a bucket and a
  position inside the bucket's capacity, the map is a bijection onto
  `{(k, j) | j < bucketCap s k}`, and consecutive buckets tile the index space —
  `C32_sub_lt_cap`, `C32_index_decomp`, `C32_cap_eq`, `C32_bucket_inverse`, `C32_buckets_tile`.
* For every sequence of constructions, copies, moves, assignments, `push_back`/`grow_by`/
  `grow_to_at_least`/`insert`/`erase`/`resize`/`pop_back`/`clear`/`swap` calls and destructions,
  every element object constructed is destroyed exactly once — `C32_ledger`, `C32_all_destroyed`.
* Each operation has the `std::vector` semantics — `C32_sem_*` (facts about the contents after one
  `step` and about the reply, for every state satisfying the id invariant `WF`, which every
  reachable state satisfies: `C32_wf_reachable`, `C32_wf_step`).
* Capacity / allocation layer (`Model/ConVecAlloc.lean`, second half of this file): which
  `buffers_[b]` exist after every operation, for every realloc strategy and first-bucket shift —
  `C32_alloc_*`.
-/
namespace Dispenso.ConVec

/-! ### bucket layout -/

/-- the sub-index lies inside the bucket -/
theorem C32_sub_lt_cap (s index : Nat) :
    (bucketAndSubIndex s index).bucketIndex < (bucketAndSubIndex s index).bucketCapacity :=
  sub_lt_cap s index

/-- the bucket's first index plus the sub-index is the index -/
theorem C32_index_decomp (s index : Nat) :
    bucketStart s (bucketAndSubIndex s index).bucket + (bucketAndSubIndex s index).bucketIndex
      = index :=
  index_decomp s index

/-- the reported capacity is the capacity of the reported bucket -/
theorem C32_cap_eq (s index : Nat) :
    (bucketAndSubIndex s index).bucketCapacity = bucketCap s (bucketAndSubIndex s index).bucket :=
  cap_eq s index

/-- every (bucket, sub-index) pair within capacity is the image of exactly the index
    `bucketStart s k + j` -/
theorem C32_bucket_inverse (s k j : Nat) (hj : j < bucketCap s k) :
    bucketAndSubIndex s (bucketStart s k + j) = ⟨k, j, bucketCap s k⟩ :=
  bucket_inverse s k j hj

/-- bucket `k + 1` starts where bucket `k` ends -/
theorem C32_buckets_tile (s k : Nat) : bucketStart s (k + 1) = bucketStart s k + bucketCap s k :=
  buckets_tile s k

/-- index ↦ (bucket, sub-index) is injective -/
theorem C32_bucket_injective (s i i' : Nat)
    (h : bucketAndSubIndex s i = bucketAndSubIndex s i') : i = i' := by
  rw [← C32_index_decomp s i, ← C32_index_decomp s i', h]

/-! ### ledger -/

/-- live element objects = sum of the sizes -/
theorem C32_ledger (ops : List Op) :
    (runOps St.init ops).live = totalItems (runOps St.init ops) := by
  rw [totalItems_eq]
  exact Led.pres_runOps WF.init Led.init ops

/-- once every vector has been destroyed, no element is alive -/
theorem C32_all_destroyed (ops : List Op) (h : (runOps St.init ops).vecs = []) :
    (runOps St.init ops).live = 0 := by
  rw [C32_ledger ops, totalItems, h]
  rfl

/-! ### well-formedness of reachable states -/

theorem C32_wf_init : WF St.init := WF.init

theorem C32_wf_step (s : St) (h : WF s) (op : Op) : WF (step s op).1 := by
  rw [step_fst]; exact h.pres_stepSt op

theorem C32_wf_reachable (ops : List Op) : WF (runOps St.init ops) :=
  WF.init.pres_runOps ops

/-! ### vector semantics, operation by operation -/

/-- `op` succeeds: afterwards vector `o` holds `new`, and the reply carries the returned position
    `p` (`-1`: the operation returns no iterator), the size and contents of `new`, and the ledger -/
def Yields (s : St) (op : Op) (o : Nat) (new : List Int) (p : Int) : Prop :=
  get (step s op).1 o = some new ∧
  (step s op).2 = some { size := new.length, pos := p, live := (step s op).1.live, items := new }

theorem Yields.pos {s : St} {op : Op} {o : Nat} {new : List Int} {p : Int}
    (h : Yields s op o new p) : (step s op).2.map (·.pos) = some p := by
  rw [h.2]; rfl

theorem Yields.items {s : St} {op : Op} {o : Nat} {new : List Int} {p : Int}
    (h : Yields s op o new p) : (step s op).2.map (·.items) = some new := by
  rw [h.2]; rfl

theorem yields_upd {s : St} {op : Op} {o : Nat} {old v : List Int} {p : Int}
    (ho : get s o = some old) (h : step s op = upd s o old v p) : Yields s op o v p := by
  unfold Yields
  rw [h, upd_fst, upd_snd]
  exact ⟨get_updSt_self s o old v ho, rfl⟩

theorem yields_add {s s0 : St} {op : Op} {v : List Int} (hw : WF s0)
    (h : step s op = (add s0 v, outOf (add s0 v) v (-1))) (hn : s0.next = s.next) :
    Yields s op s.next v (-1) := by
  unfold Yields
  rw [h, ← hn]
  exact ⟨get_add_next hw v, rfl⟩

/-- `ConcurrentVector()` -/
theorem C32_sem_mk (s : St) (h : WF s) : Yields s .mk s.next [] (-1) :=
  yields_add h rfl rfl

/-- `ConcurrentVector(n)`: `n` default-constructed elements -/
theorem C32_sem_mkSize (s : St) (h : WF s) (n : Nat) :
    Yields s (.mkSize n) s.next (List.replicate n 0) (-1) :=
  yields_add (s0 := { s with live := s.live + n }) h rfl rfl

/-- `ConcurrentVector(n, x)` -/
theorem C32_sem_mkSizeVal (s : St) (h : WF s) (n : Nat) (x : Int) :
    Yields s (.mkSizeVal n x) s.next (List.replicate n x) (-1) :=
  yields_add (s0 := { s with live := s.live + n }) h rfl rfl

/-- `ConcurrentVector(first, last)` -/
theorem C32_sem_mkRange (s : St) (h : WF s) (xs : List Int) :
    Yields s (.mkRange xs) s.next xs (-1) :=
  yields_add (s0 := { s with live := s.live + xs.length }) h rfl rfl

/-- copy construction: the new vector has the source's contents; the source is unchanged -/
theorem C32_sem_copyCtor (s : St) (h : WF s) (src : Nat) (v : List Int)
    (hsrc : get s src = some v) :
    Yields s (.copyCtor src) s.next v (-1) ∧ get (step s (.copyCtor src)).1 src = some v := by
  have hne : src ≠ s.next := by
    intro e; rw [e, h.get_next] at hsrc; cases hsrc
  have hs : step s (.copyCtor src)
      = (add { s with live := s.live + v.length } v,
         outOf (add { s with live := s.live + v.length } v) v (-1)) := by
    simp only [step, hsrc]
  refine ⟨yields_add (s0 := { s with live := s.live + v.length }) h hs rfl, ?_⟩
  rw [hs]
  exact (get_add_ne { s with live := s.live + v.length } v src hne).trans hsrc

/-- move construction: the new vector has the source's contents; the source is left empty -/
theorem C32_sem_moveCtor (s : St) (h : WF s) (src : Nat) (v : List Int)
    (hsrc : get s src = some v) :
    Yields s (.moveCtor src) s.next v (-1) ∧ get (step s (.moveCtor src)).1 src = some [] := by
  have hne : src ≠ s.next := by
    intro e; rw [e, h.get_next] at hsrc; cases hsrc
  have hs : step s (.moveCtor src)
      = (add (put s src []) v, outOf (add (put s src []) v) v (-1)) := by
    simp only [step, hsrc]
  refine ⟨yields_add (s0 := put s src []) (h.pres_upd _ _) hs rfl, ?_⟩
  rw [hs]
  show get (add _ v) src = some []
  rw [get_add_ne (put s src []) v src hne, get_put_self, hsrc]; rfl

/-- `assign(n, x)` -/
theorem C32_sem_assign (s : St) (o n : Nat) (x : Int) (old : List Int) (ho : get s o = some old) :
    Yields s (.assign o n x) o (List.replicate n x) (-1) :=
  yields_upd ho (by simp only [step, ho])

/-- `assign(first, last)` -/
theorem C32_sem_assignRange (s : St) (o : Nat) (xs old : List Int) (ho : get s o = some old) :
    Yields s (.assignRange o xs) o xs (-1) :=
  yields_upd ho (by simp only [step, ho])

/-- `push_back(x)` appends `x` and returns an iterator to it -/
theorem C32_sem_pushBack (s : St) (o : Nat) (x : Int) (old : List Int) (ho : get s o = some old) :
    Yields s (.pushBack o x) o (old ++ [x]) old.length :=
  yields_upd ho (by simp only [step, ho])

/-- `grow_by(n)` appends `n` default-constructed elements; returns the old end -/
theorem C32_sem_growBy (s : St) (o n : Nat) (old : List Int) (ho : get s o = some old) :
    Yields s (.growBy o n) o (old ++ List.replicate n 0) old.length :=
  yields_upd ho (by simp only [step, ho])

/-- `grow_by(n, x)` appends `n` copies of `x`; returns the old end -/
theorem C32_sem_growByVal (s : St) (o n : Nat) (x : Int) (old : List Int)
    (ho : get s o = some old) :
    Yields s (.growByVal o n x) o (old ++ List.replicate n x) old.length :=
  yields_upd ho (by simp only [step, ho])

/-- `grow_by(first, last)` appends the range; returns the old end -/
theorem C32_sem_growByRange (s : St) (o : Nat) (xs old : List Int) (ho : get s o = some old) :
    Yields s (.growByRange o xs) o (old ++ xs) old.length :=
  yields_upd ho (by simp only [step, ho])

/-- `grow_to_at_least(n)`: pads with default-constructed elements up to size `n` and returns the
    old end; if the vector is already that large it is unchanged and the reply points at
    element `n - 1` -/
theorem C32_sem_growToAtLeast (s : St) (o n : Nat) (old : List Int) (ho : get s o = some old) :
    (old.length < n →
      Yields s (.growToAtLeast o n) o (old ++ List.replicate (n - old.length) 0) old.length) ∧
    (n ≤ old.length → (step s (.growToAtLeast o n)).1 = s ∧
      (0 < n → (step s (.growToAtLeast o n)).2 = outOf s old ((n : Int) - 1))) := by
  constructor
  · intro hn
    exact yields_upd ho (by simp only [step, ho, if_pos hn])
  · intro hn
    have hn' : ¬ old.length < n := by omega
    simp only [step, ho, if_neg hn']
    constructor
    · split <;> rfl
    · intro h0
      rw [if_neg (by omega)]

/-- `grow_to_at_least(n, x)` -/
theorem C32_sem_growToAtLeastVal (s : St) (o n : Nat) (x : Int) (old : List Int)
    (ho : get s o = some old) :
    (old.length < n →
      Yields s (.growToAtLeastVal o n x) o (old ++ List.replicate (n - old.length) x) old.length) ∧
    (n ≤ old.length → (step s (.growToAtLeastVal o n x)).1 = s ∧
      (0 < n → (step s (.growToAtLeastVal o n x)).2 = outOf s old ((n : Int) - 1))) := by
  constructor
  · intro hn
    exact yields_upd ho (by simp only [step, ho, if_pos hn])
  · intro hn
    have hn' : ¬ old.length < n := by omega
    simp only [step, ho, if_neg hn']
    constructor
    · split <;> rfl
    · intro h0
      rw [if_neg (by omega)]

/-- `insert(begin() + idx, x)` -/
theorem C32_sem_insert1 (s : St) (o idx : Nat) (x : Int) (old : List Int)
    (ho : get s o = some old) (hidx : idx ≤ old.length) :
    Yields s (.insert1 o idx x) o (old.take idx ++ [x] ++ old.drop idx) idx :=
  yields_upd ho (by simp only [step, ho, if_pos hidx])

/-- `insert(begin() + idx, n, x)` -/
theorem C32_sem_insertN (s : St) (o idx n : Nat) (x : Int) (old : List Int)
    (ho : get s o = some old) (hidx : idx ≤ old.length) :
    Yields s (.insertN o idx n x) o (old.take idx ++ List.replicate n x ++ old.drop idx) idx :=
  yields_upd ho (by simp only [step, ho, if_pos hidx])

/-- `insert(begin() + idx, first, last)` -/
theorem C32_sem_insertRange (s : St) (o idx : Nat) (xs old : List Int)
    (ho : get s o = some old) (hidx : idx ≤ old.length) :
    Yields s (.insertRange o idx xs) o (old.take idx ++ xs ++ old.drop idx) idx :=
  yields_upd ho (by simp only [step, ho, if_pos hidx])

/-- `erase(begin() + idx)` removes the element at a valid index; returns its position -/
theorem C32_sem_erase1 (s : St) (o idx : Nat) (old : List Int) (ho : get s o = some old)
    (hidx : idx < old.length) :
    Yields s (.erase1 o idx) o (old.eraseIdx idx) idx :=
  yields_upd ho (by simp only [step, ho, if_pos hidx])

/-- `erase(end())` changes nothing and returns `end()` -/
theorem C32_sem_erase1_end (s : St) (o : Nat) (old : List Int) (ho : get s o = some old) :
    (step s (.erase1 o old.length)).1 = s ∧
    (step s (.erase1 o old.length)).2 = outOf s old old.length := by
  simp only [step, ho, Nat.lt_irrefl, if_false, if_true, and_self]

/-- `erase(begin() + i, begin() + j)` -/
theorem C32_sem_eraseRange (s : St) (o i j : Nat) (old : List Int) (ho : get s o = some old)
    (hij : i ≤ j) (hj : j ≤ old.length) :
    Yields s (.eraseRange o i j) o (old.take i ++ old.drop j) i :=
  yields_upd ho (by simp only [step, ho, if_pos (And.intro hij hj)])

/-- `resize(n)`: truncates when shrinking, pads with default-constructed elements when growing -/
theorem C32_sem_resize (s : St) (o n : Nat) (old : List Int) (ho : get s o = some old) :
    (n ≤ old.length → Yields s (.resize o n) o (old.take n) (-1)) ∧
    (old.length ≤ n →
      Yields s (.resize o n) o (old ++ List.replicate (n - old.length) 0) (-1)) := by
  by_cases hn : old.length < n
  · refine ⟨fun h => absurd hn (by omega), fun _ => ?_⟩
    exact yields_upd ho (by simp only [step, ho, if_pos hn])
  · have key : Yields s (.resize o n) o (old.take n) (-1) :=
      yields_upd ho (by simp only [step, ho, if_neg hn])
    refine ⟨fun _ => key, fun h => ?_⟩
    have e : n = old.length := by omega
    subst e
    simpa using key

/-- `resize(n, x)` -/
theorem C32_sem_resizeVal (s : St) (o n : Nat) (x : Int) (old : List Int)
    (ho : get s o = some old) :
    (n ≤ old.length → Yields s (.resizeVal o n x) o (old.take n) (-1)) ∧
    (old.length ≤ n →
      Yields s (.resizeVal o n x) o (old ++ List.replicate (n - old.length) x) (-1)) := by
  by_cases hn : old.length < n
  · refine ⟨fun h => absurd hn (by omega), fun _ => ?_⟩
    exact yields_upd ho (by simp only [step, ho, if_pos hn])
  · have key : Yields s (.resizeVal o n x) o (old.take n) (-1) :=
      yields_upd ho (by simp only [step, ho, if_neg hn])
    refine ⟨fun _ => key, fun h => ?_⟩
    have e : n = old.length := by omega
    subst e
    simpa using key

/-- `reserve(n)` changes neither the contents nor anything else -/
theorem C32_sem_reserve (s : St) (o n : Nat) (old : List Int) (ho : get s o = some old) :
    (step s (.reserve o n)).1 = s ∧ (step s (.reserve o n)).2 = outOf s old (-1) := by
  simp only [step, ho, and_self]

/-- `shrink_to_fit()` changes neither the contents nor anything else -/
theorem C32_sem_shrinkToFit (s : St) (o : Nat) (old : List Int) (ho : get s o = some old) :
    (step s (.shrinkToFit o)).1 = s ∧ (step s (.shrinkToFit o)).2 = outOf s old (-1) := by
  simp only [step, ho, and_self]

/-- `pop_back()` on a non-empty vector removes the last element -/
theorem C32_sem_popBack (s : St) (o : Nat) (old : List Int) (ho : get s o = some old)
    (hne : old ≠ []) :
    Yields s (.popBack o) o old.dropLast (-1) :=
  yields_upd ho (by simp only [step, ho, if_neg hne])

/-- `clear()` empties the vector -/
theorem C32_sem_clear (s : St) (o : Nat) (old : List Int) (ho : get s o = some old) :
    Yields s (.clear o) o [] (-1) :=
  yields_upd ho (by simp only [step, ho])

/-- copy assignment (`dst ≠ src`): `dst` takes the source's contents; the source is unchanged -/
theorem C32_sem_copyAssign (s : St) (dst src : Nat) (d v : List Int) (hne : dst ≠ src)
    (hdst : get s dst = some d) (hsrc : get s src = some v) :
    Yields s (.copyAssign dst src) dst v (-1) ∧
    get (step s (.copyAssign dst src)).1 src = some v := by
  have hs : step s (.copyAssign dst src) = upd s dst d v (-1) := by
    simp only [step, hdst, hsrc, if_neg hne]
  refine ⟨yields_upd hdst hs, ?_⟩
  rw [hs, upd_fst, get_updSt_ne _ _ _ _ _ (Ne.symm hne)]; exact hsrc

/-- self copy-assignment leaves the whole state unchanged -/
theorem C32_sem_copyAssign_self (s : St) (o : Nat) : (step s (.copyAssign o o)).1 = s := by
  rw [step_fst]; simp only [stepSt]
  split
  · simp
  · rfl

/-- move assignment (`dst ≠ src`): `dst` takes the source's contents; the source is left empty -/
theorem C32_sem_moveAssign (s : St) (dst src : Nat) (d v : List Int) (hne : dst ≠ src)
    (hdst : get s dst = some d) (hsrc : get s src = some v) :
    Yields s (.moveAssign dst src) dst v (-1) ∧
    get (step s (.moveAssign dst src)).1 src = some [] := by
  have hs : step s (.moveAssign dst src)
      = (put (put { s with live := s.live - d.length } dst v) src [],
         outOf (put (put { s with live := s.live - d.length } dst v) src []) v (-1)) := by
    simp only [step, hdst, hsrc, if_neg hne]
  have hdst' : get { s with live := s.live - d.length } dst = some d := hdst
  have hsrc' : get { s with live := s.live - d.length } src = some v := hsrc
  unfold Yields
  rw [hs]
  refine ⟨⟨?_, rfl⟩, ?_⟩
  · show get (put (put _ dst v) src []) dst = some v
    rw [get_put_ne _ _ _ _ hne, get_put_self, hdst']; rfl
  · show get (put (put _ dst v) src []) src = some []
    rw [get_put_self, get_put_ne _ _ _ _ (Ne.symm hne), hsrc']; rfl

/-- self move-assignment leaves the whole state unchanged -/
theorem C32_sem_moveAssign_self (s : St) (o : Nat) : (step s (.moveAssign o o)).1 = s := by
  rw [step_fst]; simp only [stepSt]
  split
  · simp
  · rfl

/-- `swap` (`a ≠ b`) exchanges the contents -/
theorem C32_sem_swap (s : St) (a b : Nat) (va vb : List Int) (hne : a ≠ b)
    (ha : get s a = some va) (hb : get s b = some vb) :
    get (step s (.swap a b)).1 a = some vb ∧ get (step s (.swap a b)).1 b = some va ∧
    (step s (.swap a b)).1.live = s.live := by
  have hs : (step s (.swap a b)).1 = put (put s a vb) b va := by
    rw [step_fst]; simp only [stepSt, ha, hb, if_neg hne]
  rw [hs]
  refine ⟨?_, ?_, rfl⟩
  · rw [get_put_ne _ _ _ _ hne, get_put_self, ha]; rfl
  · rw [get_put_self, get_put_ne _ _ _ _ (Ne.symm hne), hb]; rfl

/-- self swap leaves the whole state unchanged -/
theorem C32_sem_swap_self (s : St) (o : Nat) : (step s (.swap o o)).1 = s := by
  rw [step_fst]; simp only [stepSt]
  split
  · simp
  · rfl

/-- destruction: the vector no longer exists -/
theorem C32_sem_destroy (s : St) (o : Nat) : get (step s (.destroy o)).1 o = none := by
  rw [step_fst]; simp only [stepSt]
  split
  · rw [get_eq]; simp only []; rw [lk_filter]; simp
  · next hn => exact hn

/-- observers change nothing -/
theorem C32_sem_query (s : St) (o : Nat) : (step s (.query o)).1 = s := by
  rw [step_fst]; rfl

theorem C32_sem_cmp (s : St) (a b : Nat) : (step s (.cmp a b)).1 = s := by
  rw [step_fst]; rfl

/-- the vector ids an operation may write (create, modify or remove) in state `s` -/
def writes (s : St) : Op → List Nat
  | .mk => [s.next]
  | .mkSize _ => [s.next]
  | .mkSizeVal _ _ => [s.next]
  | .mkRange _ => [s.next]
  | .copyCtor _ => [s.next]
  | .moveCtor src => [s.next, src]
  | .assign o _ _ => [o]
  | .assignRange o _ => [o]
  | .pushBack o _ => [o]
  | .growBy o _ => [o]
  | .growByVal o _ _ => [o]
  | .growByRange o _ => [o]
  | .growToAtLeast o _ => [o]
  | .growToAtLeastVal o _ _ => [o]
  | .insert1 o _ _ => [o]
  | .insertN o _ _ _ => [o]
  | .insertRange o _ _ => [o]
  | .erase1 o _ => [o]
  | .eraseRange o _ _ => [o]
  | .resize o _ => [o]
  | .resizeVal o _ _ => [o]
  | .reserve _ _ => []
  | .popBack o => [o]
  | .clear o => [o]
  | .shrinkToFit _ => []
  | .copyAssign dst _ => [dst]
  | .moveAssign dst src => [dst, src]
  | .swap a b => [a, b]
  | .destroy o => [o]
  | .query _ => []
  | .cmp _ _ => []

/-- frame: every other vector is untouched (and every other id stays absent) -/
theorem C32_sem_frame (s : St) (op : Op) (o : Nat) (ho : o ∉ writes s op) :
    get (step s op).1 o = get s o := by
  rw [step_fst]
  cases op with
  | mk =>
    simp only [writes, List.mem_singleton] at ho
    exact get_add_ne _ _ _ ho
  | mkSize n =>
    simp only [writes, List.mem_singleton] at ho
    exact get_add_ne { s with live := s.live + n } _ _ ho
  | mkSizeVal n x =>
    simp only [writes, List.mem_singleton] at ho
    exact get_add_ne { s with live := s.live + n } _ _ ho
  | mkRange xs =>
    simp only [writes, List.mem_singleton] at ho
    exact get_add_ne { s with live := s.live + xs.length } _ _ ho
  | copyCtor src =>
    simp only [writes, List.mem_singleton] at ho
    simp only [stepSt]
    split
    · next v _ => exact get_add_ne { s with live := s.live + v.length } _ _ ho
    · rfl
  | moveCtor src =>
    simp only [writes, List.mem_cons, List.not_mem_nil, or_false, not_or] at ho
    simp only [stepSt]
    split
    · rw [get_add_ne (put s src []) _ _ ho.1, get_put_ne _ _ _ _ ho.2]
    · rfl
  | copyAssign dst src =>
    simp only [writes, List.mem_singleton] at ho
    simp only [stepSt]
    split
    · split
      · rfl
      · exact get_updSt_ne _ _ _ _ _ ho
    · rfl
  | moveAssign dst src =>
    simp only [writes, List.mem_cons, List.not_mem_nil, or_false, not_or] at ho
    simp only [stepSt]
    split
    · split
      · rfl
      · rw [get_put_ne _ _ _ _ ho.2, get_put_ne _ _ _ _ ho.1]; rfl
    · rfl
  | swap a b =>
    simp only [writes, List.mem_cons, List.not_mem_nil, or_false, not_or] at ho
    simp only [stepSt]
    split
    · split
      · rfl
      · rw [get_put_ne _ _ _ _ ho.2, get_put_ne _ _ _ _ ho.1]
    · rfl
  | destroy o' =>
    simp only [writes, List.mem_singleton] at ho
    simp only [stepSt]
    split
    · simp only [get_eq]; rw [lk_filter, if_neg ho]
    · rfl
  | reserve o' n => rfl
  | shrinkToFit o' => rfl
  | query o' => rfl
  | cmp a b => rfl
  | _ =>
    simp only [writes, List.mem_singleton] at ho
    exact get_one_ne _ _ _ _ ho

/-- an operation that is rejected (unknown vector, position out of range, `pop_back` on an empty
    vector, `grow_to_at_least(0)`) changes nothing -/
theorem C32_sem_rejected (s : St) (op : Op) (h : (step s op).2 = none) : (step s op).1 = s := by
  cases op with
  | mk => simp [step, outOf] at h
  | mkSize n => simp [step, outOf] at h
  | mkSizeVal n x => simp [step, outOf] at h
  | mkRange xs => simp [step, outOf] at h
  | copyAssign dst src =>
    simp only [step] at h ⊢
    cases hd : get s dst <;> cases hs : get s src <;> simp only [hd, hs] at h ⊢
    split at h <;> simp [outOf, upd] at h
  | moveAssign dst src =>
    simp only [step] at h ⊢
    cases hd : get s dst <;> cases hs : get s src <;> simp only [hd, hs] at h ⊢
    split at h <;> simp [outOf] at h
  | swap a b =>
    simp only [step] at h ⊢
    cases hd : get s a <;> cases hs : get s b <;> simp only [hd, hs] at h ⊢
    split at h <;> simp [outOf] at h
  | cmp a b =>
    simp only [step] at h ⊢
    cases hd : get s a <;> cases hs : get s b <;> simp only [hd, hs] at h ⊢
  | _ =>
    simp only [step] at h ⊢
    cases hg : get s _ <;> simp only [hg] at h ⊢
    all_goals (repeat' split at h)
    all_goals first | rfl | (simp [outOf, upd] at h; done) | (simp [*]; done)

/-! ### concrete runs -/

/-- push three, insert in the middle, erase a range, move-construct -/
example :
    let s := runOps St.init
      [.mk, .pushBack 0 10, .pushBack 0 11, .pushBack 0 12, .insert1 0 1 99, .eraseRange 0 2 4,
       .moveCtor 0]
    s.vecs = [(0, []), (1, [10, 99])] ∧ s.live = 2 := by
  decide

/-- replies: `push_back` returns the old size, `insert` and `erase` the position -/
example :
    let s := runOps St.init [.mkRange [1, 2, 3]]
    ((step s (.pushBack 0 4)).2.map (·.pos)) = some 3 ∧
    ((step s (.insertN 0 1 2 7)).2.map (·.items)) = some [1, 7, 7, 2, 3] ∧
    ((step s (.insertN 0 1 2 7)).2.map (·.pos)) = some 1 ∧
    ((step s (.erase1 0 2)).2.map (·.items)) = some [1, 2] ∧
    ((step s (.growToAtLeast 0 5)).2.map (·.items)) = some [1, 2, 3, 0, 0] ∧
    ((step s (.growToAtLeast 0 2)).2.map (·.pos)) = some 1 := by
  decide

/-- copies, resize, swap, assignment and destruction; everything is released at the end -/
example :
    let s := runOps St.init
      [.mkSizeVal 3 5, .copyCtor 0, .resize 1 1, .growBy 1 2, .erase1 0 1, .swap 0 1,
       .moveAssign 1 0, .copyAssign 0 1, .popBack 0]
    s.vecs = [(0, [5, 0]), (1, [5, 0, 0])] ∧ s.live = 5 ∧
    (runOps s [.destroy 0, .destroy 1]).vecs = [] ∧
    (runOps s [.destroy 0, .destroy 1]).live = 0 := by
  decide

/-- bucket layout for a first bucket of one element (`s = 0`): buckets of size 1, 1, 2, 4, … -/
example : bucketAndSubIndex 0 0 = ⟨0, 0, 1⟩ ∧ bucketAndSubIndex 0 1 = ⟨1, 0, 1⟩ ∧
    bucketAndSubIndex 0 2 = ⟨2, 0, 2⟩ ∧ bucketAndSubIndex 0 3 = ⟨2, 1, 2⟩ ∧
    bucketAndSubIndex 0 5 = ⟨3, 1, 4⟩ := by
  decide

/-- first bucket of 8 elements (`s = 3`): buckets of size 8, 8, 16, 32, … -/
example : bucketAndSubIndex 3 7 = ⟨0, 7, 8⟩ ∧ bucketAndSubIndex 3 8 = ⟨1, 0, 8⟩ ∧
    bucketAndSubIndex 3 15 = ⟨1, 7, 8⟩ ∧ bucketAndSubIndex 3 16 = ⟨2, 0, 16⟩ ∧
    bucketAndSubIndex 3 100 = ⟨4, 36, 64⟩ ∧
    bucketStart 3 4 = 64 ∧ bucketCap 3 4 = 64 := by
  decide

end Dispenso.ConVec

/-! ## capacity and allocation (white-box layer)

Model: `DispensoVerif/Model/ConVecAlloc.lean` — per vector `firstBucketShift_`, `size_`, the set of
non-null `buffers_[b]`, the `shouldDealloc_` flags, a ghost "start of a live malloc block" bit per
bucket and the `cv::alloc` / `cv::dealloc` counters; `allocAsNecessaryImpl` (single index and range
variant with its two passes and wait loops), `reserve`, `shrink_to_fit`, `clear`, the reserving
constructor, move / swap.  `c : Cfg` = realloc strategy, smallest first-bucket shift,
`kMaxBuffers`, inline or heap buffer table.  All statements hold for every configuration with
`2 ≤ kMaxBuffers` and every operation sequence. -/
namespace Dispenso.ConVecAlloc
open Dispenso.ConVec

/-- every reachable pool satisfies the per-vector invariant `Inv` (allocated buckets form a prefix
    containing buckets 0 and 1; the allocate-ahead condition; flags = block starts; ledger) -/
theorem C32_alloc_inv_reachable (c : Cfg) (hmb : 2 ≤ c.mb) (ops : List Op) :
    PInv c (runOps c St.init ops) :=
  runOps_inv c hmb ops St.init (PInv.init c)

/-- no operation of a sequential history waits forever for a bucket (the wait loops of
    `allocAsNecessaryImpl` always find their buckets allocated) -/
theorem C32_alloc_never_hangs (c : Cfg) (hmb : 2 ≤ c.mb) (ops : List Op) (op : Op) :
    (step c (runOps c St.init ops) op).2.2 = false :=
  (step_inv c hmb _ op (C32_alloc_inv_reachable c hmb ops)).2

/-- every index below the size (and the index `size` itself) lies in an allocated bucket -/
theorem C32_alloc_index_allocated (c : Cfg) (hmb : 2 ≤ c.mb) (ops : List Op) (o : Nat) (v : VA)
    (hv : get (runOps c St.init ops) o = some v) (i : Nat) (hi : i ≤ v.size) :
    v.bufs (bucketAndSubIndex v.shift i).bucket = true :=
  alloc_of_le ((C32_alloc_inv_reachable c hmb ops).get hv).base
    ((C32_alloc_inv_reachable c hmb ops).get hv).trig hi

/-- allocate-ahead: once the index at `allocCheckIndex` of bucket `b` is in use, bucket `b + 1`
    exists (what concurrent growth relies on: nobody will allocate it later) -/
theorem C32_alloc_ahead (c : Cfg) (hmb : 2 ≤ c.mb) (ops : List Op) (o : Nat) (v : VA)
    (hv : get (runOps c St.init ops) o = some v) (b : Nat)
    (hb : bucketStart v.shift b + allocCheckIndex c.strat (bucketCap v.shift b) < v.size) :
    v.bufs (b + 1) = true :=
  ((C32_alloc_inv_reachable c hmb ops).get hv).trig b hb

/-- `capacity()` formula: an index is below `capacity()` iff its bucket is allocated; hence
    `size() ≤ capacity()` -/
theorem C32_alloc_capacity (c : Cfg) (hmb : 2 ≤ c.mb) (ops : List Op) (o : Nat) (v : VA)
    (hv : get (runOps c St.init ops) o = some v) :
    (∀ i, i < capacity c.mb v ↔ v.bufs (bucketAndSubIndex v.shift i).bucket = true) ∧
      v.size ≤ capacity c.mb v := by
  have hI := (C32_alloc_inv_reachable c hmb ops).get hv
  refine ⟨fun i => capacity_iff c v hI hmb i, ?_⟩
  by_cases h0 : v.size = 0
  · omega
  · have := (capacity_iff c v hI hmb (v.size - 1)).2 (alloc_of_le hI.base hI.trig (by omega))
    omega

/-- the allocated buckets are a prefix `0 … k` with `k ≥ 1`, so `capacity()` is a power of two times
    the first bucket: `capacity() = bucketStart (k + 1)` -/
theorem C32_alloc_prefix (c : Cfg) (hmb : 2 ≤ c.mb) (ops : List Op) (o : Nat) (v : VA)
    (hv : get (runOps c St.init ops) o = some v) :
    v.bufs 0 = true ∧ v.bufs 1 = true ∧ (∀ a b, a ≤ b → v.bufs b = true → v.bufs a = true) ∧
      ∀ b, v.bufs b = true → b < c.mb := by
  have hI := (C32_alloc_inv_reachable c hmb ops).get hv
  exact ⟨hI.base.b0, hI.base.b1, fun a b hab hb => pre_down hI.base.pre hab hb, fun b hb => hI.lt_mb hb⟩

/-- `reserve(n)` ends (no hang) and afterwards `capacity() ≥ n`; size and shift are unchanged and no
    allocated bucket is dropped -/
theorem C32_alloc_reserve (c : Cfg) (hmb : 2 ≤ c.mb) (ops : List Op) (o : Nat) (v : VA)
    (hv : get (runOps c St.init ops) o = some v) (n : Nat) :
    ∃ v', reserve c.strat v n = some v' ∧ v'.size = v.size ∧ v'.shift = v.shift ∧
      (v'.bufs c.mb = false → n ≤ capacity c.mb v') := by
  have hI := (C32_alloc_inv_reachable c hmb ops).get hv
  obtain ⟨v', hr, hinv, hs, hsh, hcov⟩ := reserve_inv c v n hI
  refine ⟨v', hr, hs, hsh, ?_⟩
  intro hb
  by_cases h0 : n = 0
  · omega
  · have h1 := hcov (n - 1) (by omega)
    rw [← hsh] at h1
    have := (capacity_iff c v' (hinv hb) hmb (n - 1)).2 h1
    omega

/-- ledger of one vector: `cv::alloc` calls = `cv::dealloc` calls + the first block (+ the heap
    buffer table) + the buckets whose pointer is the start of a live block; no block start was ever
    dropped without a free (`leaked = 0`), no pointer that is not a block start was ever freed
    (`badFree = 0`); on every allocated bucket `≥ 2` the `shouldDealloc_` flag says exactly whether
    the pointer is a block start -/
theorem C32_alloc_ledger (c : Cfg) (hmb : 2 ≤ c.mb) (ops : List Op) (o : Nat) (v : VA)
    (hv : get (runOps c St.init ops) o = some v) :
    v.nalloc = v.nfree + 1 + (if c.table then 1 else 0) + cnt c.mb v.starts ∧ v.leaked = 0 ∧ v.badFree = 0 ∧
      (∀ b, 2 ≤ b → v.bufs b = true → v.flags b = v.starts b) ∧ (∀ b, v.starts b = true → v.bufs b = true) := by
  have hI := (C32_alloc_inv_reachable c hmb ops).get hv
  exact ⟨hI.count, hI.base.leaked0, hI.base.bad0, hI.base.fl, hI.base.st_sub⟩

/-- the destructor frees every block of a vector: afterwards allocations = frees -/
theorem C32_alloc_destroy_balanced (c : Cfg) (hmb : 2 ≤ c.mb) (ops : List Op) (o : Nat) (v : VA)
    (hv : get (runOps c St.init ops) o = some v) :
    (destroyVA c v).nalloc = (destroyVA c v).nfree ∧ (destroyVA c v).leaked = 0 ∧ (destroyVA c v).badFree = 0 := by
  have := destroy_balanced c v ((C32_alloc_inv_reachable c hmb ops).get hv)
  exact ⟨this.1, this.2.1, this.2.2.1⟩

/-- once every vector has been destroyed, every block that was allocated has been freed exactly once -/
theorem C32_alloc_all_freed (c : Cfg) (hmb : 2 ≤ c.mb) (ops : List Op)
    (h : (runOps c St.init ops).vecs = []) :
    totalAlloc (runOps c St.init ops) = totalFree (runOps c St.init ops) ∧
      totalLeaked (runOps c St.init ops) = 0 ∧ totalBadFree (runOps c St.init ops) = 0 := by
  have hI := C32_alloc_inv_reachable c hmb ops
  unfold totalAlloc totalFree totalLeaked totalBadFree
  rw [h]
  simp only [List.map_nil, List.sum_nil, Nat.add_zero]
  exact hI.2

/-- growth never re-allocates: after `growByUninitialized(n)` / `emplace_back` every bucket that was
    allocated still is (the stores of `allocAsNecessaryImpl` only hit null entries), and the new
    size is covered -/
theorem C32_alloc_growth_monotone (c : Cfg) (hmb : 2 ≤ c.mb) (ops : List Op) (o : Nat) (v : VA)
    (hv : get (runOps c St.init ops) o = some v) (n : Nat) :
    ∃ v', growRange c.strat v n = some v' ∧ v'.size = v.size + n ∧
      ∀ k, v.bufs k = true → v'.bufs k = true := by
  obtain ⟨v', h1, _, h3, _, h5⟩ := growRange_inv c v n ((C32_alloc_inv_reachable c hmb ops).get hv)
  exact ⟨v', h1, h3, h5⟩

/-- which buckets the range variant visits (design A.8): for the range `[i0, i0 + n)` it visits bucket
    `b + 1` whenever the trigger index of bucket `b` lies in the range, and the capacity it computes
    for a visited bucket is that bucket's capacity (so the single block it allocates is carved
    correctly) -/
theorem C32_alloc_range_targets (st : Strat) (s i0 n : Nat) :
    (∀ b, i0 ≤ bucketStart s b + allocCheckIndex st (bucketCap s b) →
        bucketStart s b + allocCheckIndex st (bucketCap s b) < i0 + n →
        ∃ cap, (b + 1, cap) ∈ rangeTargets st (bucketAndSubIndex s i0) n (bucketAndSubIndex s (i0 + n))) ∧
    (∀ k cap, (k, cap) ∈ rangeTargets st (bucketAndSubIndex s i0) n (bucketAndSubIndex s (i0 + n)) →
        cap = bucketCap s k ∧ (bucketAndSubIndex s i0).bucket + 1 ≤ k) :=
  ⟨fun b h1 h2 => inT_of_trig st s i0 n b h1 h2,
   fun k cap h => ⟨target_cap st s i0 n k cap h, inT_ge st s i0 n k ⟨cap, h⟩⟩⟩

/-! ### non-vacuity: concrete histories -/

/-- kHalfBufferAhead, first bucket of 4 elements: `assign(7, x)` allocates bucket 2 (index 6 is the
    trigger of bucket 1), growth to 9 then needs no further block; `shrink_to_fit` after `clear`
    frees it; the destructor balances the ledger -/
example :
    let c : Cfg := { strat := .half, minShift := 2, mb := 12, table := true }
    let s := runOps c St.init [.mk, .assign 0 7 1]
    ((get s 0).map fun v => (v.shift, v.size, capacity c.mb v, mask c.mb v.bufs, mask c.mb v.flags)) = some (2, 7, 16, 7, 4) ∧
    (step c s (.growBy 0 2)).2.2 = false ∧
    totalAlloc (runOps c s [.growBy 0 2]) = 3 ∧
    totalFree (runOps c s [.growBy 0 2, .clear 0, .shrinkToFit 0]) = 1 ∧
    totalAlloc (runOps c s [.destroy 0]) = totalFree (runOps c s [.destroy 0]) := by
  decide

/-- the hang the allocate-ahead invariant excludes: the same vector with bucket 2 missing (what a
    `reserve` that returns early leaves behind) spins in the wait loop when growth reaches index 8 -/
example :
    let v : VA := { VA.fresh 2 false with size := 7 }
    (growRange .half v 2).isNone = true ∧ (pushOne .half { v with size := 8 }).isNone = true := by
  decide

/-- one block for several buckets: `reserve(40)` on a 4-element first bucket allocates buckets 2..4 as
    a single block (only bucket 2 carries the dealloc flag), capacity becomes 64 -/
example :
    let c : Cfg := { strat := .asNeeded, minShift := 2, mb := 12, table := false }
    let s := runOps c St.init [.mk, .reserve 0 40]
    ((get s 0).map fun v => (capacity c.mb v, mask c.mb v.bufs, mask c.mb v.flags, v.nalloc, v.elems))
      = some (64, 31, 4, 2, 64) := by
  decide

end Dispenso.ConVecAlloc
