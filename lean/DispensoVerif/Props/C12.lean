import DispensoVerif.Proofs.ParFor

/-!
# C12 — the body invocations of `parallel_for` partition the range

Statement: for every configuration of the domain, in every mode (serial, static with the tail run by
the caller, static no-wait with the tail folded into the last chunk, dynamic, stripes), the
`[s, e)` sub-ranges the body is invoked with (`chunksOf c`) are, in list order, contiguous from
`start` to `stop` and non-empty; hence every index of `[start, stop)` lies in exactly one of them
and none reaches outside.  An empty range yields no invocation.

Domain (`Dom`): `start < stop`, `0 ≤ chunk` (`0` adaptive, `ty.maxVal` static, otherwise an explicit
positive chunk size).  Index values are unbounded `Int` (no overflow hypotheses in the model).
-/
namespace Dispenso.ParFor
open Dispenso Dispenso.Chunk

/-- the domain of C12/C13 -/
structure Dom (c : Cfg) : Prop where
  lt : c.start < c.stop
  /-- 0 adaptive, `ty.maxVal` static, otherwise an explicit positive chunk size -/
  chunk_nonneg : 0 ≤ c.chunk

instance (c : Cfg) : Decidable (Dom c) :=
  decidable_of_iff (c.start < c.stop ∧ 0 ≤ c.chunk)
    ⟨fun h => ⟨h.1, h.2⟩, fun h => ⟨h.lt, h.chunk_nonneg⟩⟩

/-- **C12** the invocations tile `[start, stop)`: contiguous, in order, non-empty — all modes. -/
theorem C12_partition (c : Cfg) (h : Dom c) : Tiles c.start c.stop (chunksOf c) := by
  unfold chunksOf
  have hlt := h.lt
  apply plan_cases c (fun p => Tiles c.start c.stop p.chunks)
  · intro h0; omega
  · intro _; exact ⟨rfl, hlt, rfl⟩
  · -- static, wait = false, tail folded into the last chunk
    intro g te ht mt st ctx _ _ _
    obtain ⟨gs, _, _⟩ := ctx.facts
    obtain ⟨wf, hsz, _, _⟩ := ctx.mapper
    exact mapper_tiles_fold _ wf (fun i => (hsz i).1) c.stop gs.te_le
  · -- static, tail (if any) run by the caller after the barrier
    intro g te ht mt st ctx _ _
    obtain ⟨gs, _, _⟩ := ctx.facts
    obtain ⟨wf, hsz, _, _⟩ := ctx.mapper
    exact Tiles.append (mapper_tiles _ wf (fun i => (hsz i).1))
      (tail_tiles te c.stop ht gs.tail_lt gs.notail)
  · -- stripes
    intro g te ht mt st ctx _ _ _
    obtain ⟨gs, _, hsz⟩ := ctx.facts
    obtain ⟨l1, _, _⟩ := toLaunch_spec c mt ctx.pool ctx.mt2
    obtain ⟨c1, _, _⟩ := calcChunkSize_spec (te - c.start) c.chunk (toLaunch c mt) true
      (max 1 (c.minItemsPerChunk : Int)) g 64 hsz (by omega) h.chunk_nonneg
    exact Tiles.append
      (stripesFrom_tiles te _ c1 _ c.start gs.te_ge (stripeBounds_last c.start te _ g (by omega)))
      (tail_tiles te c.stop ht gs.tail_lt gs.notail)
  · -- dynamic
    intro g te ht mt st ctx _ _
    obtain ⟨gs, _, hsz⟩ := ctx.facts
    obtain ⟨c1, c2, c3⟩ := calcChunkSize_spec (te - c.start) c.chunk (toLaunch c mt) c.wait
      (max 1 (c.minItemsPerChunk : Int)) g 16 hsz (by omega) h.chunk_nonneg
    exact Tiles.append (dynChunks_tiles c.start te _ _ c1 c2 c3)
      (tail_tiles te c.stop ht gs.tail_lt gs.notail)

/-- **C12** every index of `[start, stop)` is handed to the body exactly once, and nothing outside
the range ever is. -/
theorem C12_exactly_once (c : Cfg) (h : Dom c) (x : Int) :
    coverCount (chunksOf c) x = if c.start ≤ x ∧ x < c.stop then 1 else 0 :=
  (C12_partition c h).coverCount_eq x

/-- **C12** an empty range invokes nothing. -/
theorem C12_empty (c : Cfg) (h : c.stop ≤ c.start) : chunksOf c = [] := by
  unfold chunksOf plan
  rw [if_pos h]

/-- `chunk_nonneg` cannot be dropped: a negative explicit chunk size yields no chunk at all. -/
def exNegChunk : Cfg :=
  { ty := ⟨32, true⟩, start := 0, stop := 9, chunk := -1, maxThreads := 4, wait := false,
    minItemsPerChunk := 3, granularity := 1, poolThreads := 3, recursive := false }
example : chunksOf exNegChunk = [] := by decide

/-! ### non-vacuity: one configuration per mode -/

def exSerial : Cfg :=
  { ty := ⟨32, true⟩, start := 3, stop := 10, chunk := 0, maxThreads := 1, wait := true,
    minItemsPerChunk := 1, granularity := 1, poolThreads := 4, recursive := false }
def exStaticTail : Cfg :=
  { ty := ⟨32, true⟩, start := 0, stop := 23, chunk := 2147483647, maxThreads := 8, wait := true,
    minItemsPerChunk := 1, granularity := 4, poolThreads := 3, recursive := false }
def exStaticFold : Cfg := { exStaticTail with wait := false }
def exDynamic : Cfg :=
  { ty := ⟨32, true⟩, start := -5, stop := 20, chunk := 7, maxThreads := 8, wait := false,
    minItemsPerChunk := 1, granularity := 4, poolThreads := 3, recursive := false }
def exStripes : Cfg :=
  { ty := ⟨32, true⟩, start := 2, stop := 45, chunk := 0, maxThreads := 3, wait := true,
    minItemsPerChunk := 6, granularity := 4, poolThreads := 2, recursive := false }

example : Dom exSerial ∧ (plan exSerial).mode = .serial ∧ chunksOf exSerial = [(3, 10)] := by decide
example : Dom exStaticTail ∧ (plan exStaticTail).mode = .static_ ∧
    chunksOf exStaticTail = [(0, 8), (8, 12), (12, 16), (16, 20), (20, 23)] := by decide
example : Dom exStaticFold ∧ (plan exStaticFold).mode = .static_ ∧
    chunksOf exStaticFold = [(0, 8), (8, 12), (12, 16), (16, 23)] := by decide
example : Dom exDynamic ∧ (plan exDynamic).mode = .dynamic ∧
    chunksOf exDynamic = [(-5, 2), (2, 9), (9, 16), (16, 20)] := by decide
example : Dom exStripes ∧ (plan exStripes).mode = .stripes ∧
    chunksOf exStripes = [(2, 10), (10, 14), (14, 22), (22, 26), (26, 34), (34, 42), (42, 45)] := by
  decide
example : Tiles exStaticFold.start exStaticFold.stop (chunksOf exStaticFold) :=
  C12_partition _ (by decide)

end Dispenso.ParFor
