import DispensoVerif.Proofs.DistRWLock

/-!
# C23 — `DistributedRWLockImpl<N>`: writer exclusion across all slots, no lost wake-up

Model: `DispensoVerif/Model/DistRWLock.lean` (field `i < N` = lock word of slot `i` =
reader count + `W` if the writer bit is set; one model action per atomic / futex operation of
`lock`, `try_lock`, `unlock`, `lock_shared`, `try_lock_shared`, `unlock_shared`).
All theorems hold for every reachable state with fewer than `2^30` threads (so that reader counts
stay below the writer bit and a wake-all covers every parked thread), any `N ≥ 1`, any
interleaving, including spurious futex wake-ups.  Invariant and proofs:
`DispensoVerif/Proofs/DistRWLock.lean`.
-/
namespace Dispenso.DistRWLock
open Dispenso.Conc

/-- the inductive invariant holds in every reachable state -/
theorem reach_inv (N : Nat) (hN : 1 ≤ N) (s : State (proto N)) (h : Reachable (init N) s)
    (hn : s.threads.length < 2 ^ 30) : Inv N s :=
  inv_reachable hN s h hn

/-- **C23.a** An exclusive holder excludes every reader on every slot and every other writer. -/
theorem C23_exclusion (N : Nat) (hN : 1 ≤ N) (s : State (proto N)) (h : Reachable (init N) s)
    (hn : s.threads.length < 2 ^ 30) (t u : TId) :
    holdOf (s.loc t) = .write → holdOf (s.loc u) ≠ .none → t = u :=
  fun ht hu => (reach_inv N hN s h hn).exclusion hN t u ht hu

/-- **C23.b** Writer bits have unique owners, and the bit of slot `i` is set exactly while some
thread owns it (`ownsBit`: `lock()` phase 1 at slot `i` owns the slots below `i`, phase 2 and a
holder own all, `try_lock()` likewise, a rollback at `j` of a failure at `i` owns `[j, i)`,
`unlock()` at `i` owns `[i, N)`). -/
theorem C23_bit_owner_unique (N : Nat) (hN : 1 ≤ N) (s : State (proto N))
    (h : Reachable (init N) s) (hn : s.threads.length < 2 ^ 30) :
    (∀ t u i, i < N → ownsBit N (s.loc t) i → ownsBit N (s.loc u) i → t = u) ∧
    (∀ i, i < N → (W ≤ s.mem i ↔ ∃ t, ownsBit N (s.loc t) i)) :=
  have I := reach_inv N hN s h hn
  ⟨fun _ _ _ hi ht hu => I.owner_unique hi ht hu, fun _ hi => I.bit_iff hi⟩

/-- **C23.c** A failed `try_lock()` leaves no trace: once it has returned it owns no bit, and every
rollback step clears exactly the writer bit of slot `j` (which this thread had set itself) and
touches nothing else — so after the rollback every slot word is what it would be without this
`try_lock`, up to what concurrent readers did in the meantime. -/
theorem C23_failed_try_lock_leaves_no_trace (N : Nat) (hN : 1 ≤ N) (s : State (proto N))
    (h : Reachable (init N) s) (hn : s.threads.length < 2 ^ 30) :
    (∀ t, (s.loc t : L) = L.done 0 .none → ∀ k, ¬ ownsBit N (s.loc t) k) ∧
    (∀ t j i s', (s.loc t : L) = L.tlRollback j i → exec s (.step t) = some s' →
      W ≤ s.mem j ∧ s'.mem j = s.mem j - W ∧ (∀ f, f ≠ j → s'.mem f = s.mem f) ∧
      (s'.loc t : L) = (if j + 1 < i then L.tlRollback (j + 1) i else L.done 0 .none) ∧
      (∀ u, u ≠ t → s'.loc u = s.loc u) ∧ s'.parked = s.parked) := by
  have I := reach_inv N hN s h hn
  refine ⟨fun t ht k hk => ?_, fun t j i s' hl he => ?_⟩
  · rw [ht] at hk; exact hk
  · have hw := I.wf t
    rw [show (s : State (DP N)).loc t = L.tlRollback j i from hl] at hw
    exact ⟨I.owner_mem (t := t) (Nat.lt_trans hw.1 hw.2)
      (by rw [show (s : State (DP N)).loc t = L.tlRollback j i from hl]
          exact ⟨Nat.le_refl _, hw.1⟩), I.rollback_step hl he⟩

/-- **C23.d** No lost wake-up: whenever a thread is parked on slot `i` and the slot word is
exactly `W` (the value the parked writer is waiting for), a futex wake on slot `i` is pending. -/
theorem C23_no_lost_wakeup (N : Nat) (hN : 1 ≤ N) (s : State (proto N))
    (h : Reachable (init N) s) (hn : s.threads.length < 2 ^ 30) :
    ∀ u i, s.parked u = some (i, false) → s.mem i = W →
      ∃ t, (s.loc t : L) = L.lsNotify i ∨ (s.loc t : L) = L.tsNotify i ∨
        (s.loc t : L) = L.usNotify i :=
  (reach_inv N hN s h hn).nl

/-- only a writer in phase 2 ever parks: on the slot it is draining, untimed, having seen a value
other than `W`, and owning every writer bit -/
theorem C23_only_draining_writer_parks (N : Nat) (hN : 1 ≤ N) (s : State (proto N))
    (h : Reachable (init N) s) (hn : s.threads.length < 2 ^ 30) (u : TId) (i : Nat) (b : Bool) :
    s.parked u = some (i, b) →
      b = false ∧ i < N ∧ ∃ cur, cur ≠ W ∧ (s.loc u : L) = L.lkWait i cur := by
  intro hp
  have I := reach_inv N hN s h hn
  obtain ⟨hb, cur, hl⟩ := I.pk u i b hp
  have hw := I.wf u
  rw [hl] at hw
  exact ⟨hb, hw.1, cur, hw.2, hl⟩

/-- **C23.e** Quiescence: in a reachable state in which every thread is either between calls and
holds nothing, or parked, nobody is parked. -/
theorem C23_quiescent_not_blocked (N : Nat) (hN : 1 ≤ N) (s : State (proto N))
    (h : Reachable (init N) s) (hn : s.threads.length < 2 ^ 30)
    (hq : ∀ t, s.parked t ≠ none ∨
      ((proto N).op (s.loc t) = none ∧ holdOf (s.loc t) = .none)) :
    ∀ t, s.parked t = none :=
  (reach_inv N hN s h hn).quiescent hq

/-! ### non-vacuity: a concrete run with `N = 2` -/

/-- reader 1 holds slot 1; writer 2 takes both bits, drains slot 0, finds slot 1 busy -/
def demo1 : List (Act (proto 2)) :=
  [.call 1 (L.lsAdd 1), .step 1, .call 2 (L.lkOr 0), .step 2, .step 2, .step 2, .step 2]
/-- ... the writer parks on slot 1; the reader's `unlock_shared` sees `W + 1` -/
def demo2 : List (Act (proto 2)) := demo1 ++ [.step 2, .call 1 (L.usSub 1), .step 1]
/-- ... the reader wakes the writer, which re-reads slot 1 and acquires -/
def demo3 : List (Act (proto 2)) := demo2 ++ [.wake 1 [2], .step 2]

example : (run (init 2) demo1).map
    (fun s => ((s.loc 1 : L), (s.loc 2 : L), s.mem 0, s.mem 1, (s.parked 2 : Option (Nat × Bool)))) =
    some (L.done 1 (.read 1), L.lkWait 1 (W + 1), W, W + 1, none) := by rfl

example : (run (init 2) demo2).map
    (fun s => ((s.loc 1 : L), (s.loc 2 : L), s.mem 0, s.mem 1, (s.parked 2 : Option (Nat × Bool)))) =
    some (L.usNotify 1, L.lkWait 1 (W + 1), W, W, some (1, false)) := by rfl

example : (run (init 2) demo3).map
    (fun s => ((s.loc 1 : L), (s.loc 2 : L), s.mem 0, s.mem 1, (s.parked 2 : Option (Nat × Bool)))) =
    some (L.done 0 .none, L.done 1 .write, W, W, none) := by rfl

/-- a failed `try_lock`: writer 2 is half-way through `unlock()` (slot 0 released, slot 1 still
owned); thread 1's `try_lock()` takes bit 0, fails on slot 1 and rolls bit 0 back -/
def demo4 : List (Act (proto 2)) :=
  [.call 2 (L.lkOr 0), .step 2, .step 2, .step 2, .step 2, .call 2 (L.ulAnd 0), .step 2,
    .call 1 (L.tlOr 0), .step 1, .step 1]

example : (run (init 2) demo4).map
    (fun s => ((s.loc 1 : L), (s.loc 2 : L), s.mem 0, s.mem 1)) =
    some (L.tlRollback 0 1, L.ulAnd 1, W, W) := by rfl

example : (run (init 2) (demo4 ++ [.step 1])).map
    (fun s => ((s.loc 1 : L), (s.loc 2 : L), s.mem 0, s.mem 1)) =
    some (L.done 0 .none, L.ulAnd 1, 0, W) := by rfl

/-- a reader cannot enter while a writer holds: its `fetch_add` sees the bit and it backs out (its
`fetch_sub` sees `W + 1`, so it issues a futex wake, which finds nobody parked) -/
example : (run (init 2) [.call 2 (L.lkOr 0), .step 2, .step 2, .step 2, .step 2,
      .call 1 (L.tsAdd 1), .step 1, .step 1, .wake 1 []]).map
    (fun s => ((s.loc 1 : L), (s.loc 2 : L), s.mem 0, s.mem 1)) =
    some (L.done 0 .none, L.done 1 .write, W, W) := by rfl

end Dispenso.DistRWLock
