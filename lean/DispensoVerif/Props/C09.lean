import DispensoVerif.Proofs.WakeStop
/-
C09 — Pool shutdown and resize always complete.

Model: `Model/Wake.lean` (`proto N G`): `N ≥ 1` workers in wake groups of `G ≥ 1`, each running
`while (running) { …; enterSleep; if (!running) { exitSleep; break; } waitFor(epoch); exitSleep; }`,
any number of producer threads calling claimAndWakeOne / cascadeWake / wakeRange / cascadeWakeSeed
at any time, and `stopAll` = the stop path of ~ThreadPool / resizeLocked (`running_.store(false)`
for every thread, then `wakeAll()`), possibly by several threads.  All theorems quantify over every
interleaving (`Conc.Reachable`: any finite sequence of operations, futex wakes choosing arbitrary
waiters, time-outs and spurious futex returns at any time), every `N`, `G ≥ 1` and any number of threads
below 2^31 - 1 (the count passed to FUTEX_WAKE by `bumpAndWakeAll`).

Once some thread's `stopAll` has returned (local state `sDone`, which is never left):
  * `C09_stop_completes`: nobody is blocked on a futex (so no `timeout` / `spurious` action is even
    enabled), every `running_` flag is clear, and every worker that has not left its loop has an
    enabled action, each of its actions strictly decreases `rem` (≤ 6), and no other thread's action
    changes its state: every worker leaves its loop after at most 6 own actions, none of them a time-out;
  * `C09_futex_wait_cannot_block`: a worker between its running re-check and its futex wait holds a stale
    epoch, i.e. `waitFor` returns without blocking;
  * `C09_exited_is_final`: a worker that has left its loop has no further actions.
`C09_old_wakeAll_leaves_worker_parked`: with the pre-repair `wakeAll` (futex wake only for groups whose
sleep mask is non-empty) a state is reachable in which `stopAll` has returned, every flag is clear, a
worker is blocked on the group futex with its mask bit clear, and no thread has a pending operation:
only its time-out gets it out (the defect repaired by bdad0f7).
-/
namespace Dispenso.Wake
open Dispenso.Conc

/-- `sDone` is never left: what holds "once stopAll has returned" holds in every later state -/
theorem C09_stop_permanent (N G : Nat) (s s' : State (proto N G)) (a : Act (proto N G)) (t : TId)
    (hr : Reachable (init N G) s) (hd : s.loc t = L.sDone) (he : exec s a = some s') :
    s'.loc t = L.sDone := by
  have I := inv_reachable hr
  have hp : s.parked t = none := by
    cases hpk : s.parked t with
    | none => rfl
    | some p =>
      obtain ⟨_, i, e, hl, _⟩ := I.pk t p.1 p.2 hpk
      rw [hd] at hl; cases hl
  have := loc_final he hp (by rw [hd]; rfl) (fun l' => by rw [hd]; rfl)
  rw [this, hd]

/-- **C09** (futex part): after `stopAll` returned nobody is blocked on a futex. -/
theorem C09_no_worker_parked (N G : Nat) (hG : 1 ≤ G) (s : State (proto N G)) (t : TId)
    (hr : Reachable (init N G) s) (hd : s.loc t = L.sDone) (hn : s.threads.length < intMax) :
    ∀ u, s.parked u = none := by
  have I := inv_reachable hr
  intro u
  cases hpk : s.parked u with
  | none => rfl
  | some p =>
    exfalso
    obtain ⟨_, i, e, hl, hf⟩ := I.pk u p.1 p.2 hpk
    have hi : i < N := I.idx u i (by rw [hl]; rfl)
    have hw : pastWake (numGroups N G) (s.loc t) (i / G) := by
      rw [hd]; exact div_lt_numGroups hG hi
    apply I.noPk hn t (i / G) u p.2 hw
    rw [hpk, ← hf]

/-- **C09** (wait path): after `stopAll` returned, a worker between its running re-check and its
futex wait holds an epoch value older than its group's epoch: both epoch comparisons of
`EpochWaiter::waitFor` and the kernel's futex comparison fail, so it does not block. -/
theorem C09_futex_wait_cannot_block (N G : Nat) (hG : 1 ≤ G) (s : State (proto N G)) (t u : TId)
    (hr : Reachable (init N G) s) (hd : s.loc t = L.sDone) (i : Nat) (e : Int)
    (hu : s.loc u = L.wE1 i e ∨ s.loc u = L.wE2 i e ∨ s.loc u = L.wWait i e) :
    e < s.mem (fEpoch (i / G)) := by
  have I := inv_reachable hr
  have hz : inZ (s.loc u) = some (i, e) := by
    rcases hu with h | h | h <;> rw [h] <;> rfl
  have hi : i < N := I.idx u i (wE_widx (inZ_wE hz))
  exact I.zone t u i e hz (by rw [hd]; exact div_lt_numGroups hG hi)

/-- **C09**: once `stopAll` (stop every thread, then `wakeAll`) has returned,
(1) every `running_` flag is clear, (2) no thread is blocked on a futex — in particular no `timeout`
or `spurious` action is enabled —, and (3) every worker that has not yet left its loop can act, each of
its own actions decreases `rem` (at most 6), and actions of other threads do not change its state.
Together with `C09_stop_permanent` this holds in every later state, so every worker leaves its loop
after at most 6 more own actions and without a time-out, whatever the other threads do. -/
theorem C09_stop_completes (N G : Nat) (hG : 1 ≤ G) (s : State (proto N G)) (t : TId)
    (hr : Reachable (init N G) s) (hd : s.loc t = L.sDone) (hn : s.threads.length < intMax) :
    (∀ i, i < N → s.mem (fRun i) = 0) ∧
    (∀ u, s.parked u = none ∧ exec s (.timeout u) = none ∧ exec s (.spurious u) = none) ∧
    (∀ u i, widx (s.loc u) = some i → s.loc u ≠ L.wExit i →
      (∃ a s', actor a = u ∧ exec s a = some s') ∧
      (∀ a s', exec s a = some s' →
        (actor a = u → rem (s'.loc u) < rem (s.loc u) ∧ s'.parked u = none) ∧
        (actor a ≠ u → s'.loc u = s.loc u))) := by
  have I := inv_reachable hr
  have hnp := C09_no_worker_parked N G hG s t hr hd hn
  have hrun : ∀ i, i < N → s.mem (fRun i) = 0 := fun i hi => I.run0 t i (by rw [hd]; trivial) hi
  refine ⟨hrun, fun u => ⟨hnp u, by simp [exec, hnp u], by simp [exec, hnp u]⟩, ?_⟩
  intro u i hw hne
  have hi : i < N := I.idx u i hw
  refine ⟨?_, fun a s' he => ⟨fun ha => ?_, fun ha => (loc_other he (hnp u) ha).1⟩⟩
  · -- an action of the worker is enabled
    by_cases hop : op N G (s.loc u) = none
    · -- between calls: the loop guard can be called
      cases hl : s.loc u <;> rw [hl] at hw hop hne <;> simp [widx] at hw <;> subst hw <;>
        simp [op] at hop
      case wIdle j e =>
        exact ⟨.call u (L.wRun j e), _, rfl, by simp [exec, hnp u, hl, op, entry]; rfl⟩
      case wOn j e =>
        exact ⟨.call u (L.wRun j e), _, rfl, by simp [exec, hnp u, hl, op, entry]; rfl⟩
      case wExit => exact absurd rfl hne
    · obtain ⟨s', hs'⟩ := worker_step_enabled hw (hnp u) hop
      exact ⟨.step u, s', rfl, hs'⟩
  · -- every action of the worker makes progress and does not block
    cases a with
    | step v =>
      have : v = u := ha
      subst this
      obtain ⟨_, o, ho, hc⟩ := exec_step_gen he
      replace ho : op N G (s.loc v) = some o := ho
      have hop : op N G (s.loc v) ≠ none := by rw [ho]; simp
      have key : ∀ r, (∀ f, o = .load f → r = s.mem f) → rem (cont N G (s.loc v) r) < rem (s.loc v) := by
        intro r hrr
        apply rem_cont hw hop
        · intro e hl
          have : o = .load (fRun i) := by
            rcases hl with hl | hl <;> rw [hl] at ho <;> exact (Option.some.inj ho).symm
          rw [hrr _ this]; exact hrun i hi
        · intro e hl
          have : o = .load (fEpoch (i / G)) := by
            rcases hl with hl | hl <;> rw [hl] at ho <;> exact (Option.some.inj ho).symm
          rw [hrr _ this]
          have := C09_futex_wait_cannot_block N G hG s t v hr hd i e
            (by rcases hl with hl | hl <;> simp [hl])
          omega
      rcases hc with ⟨f, e, b, rfl, hm, rfl⟩ | ⟨f, e, b, rfl, hm, rfl⟩ | ⟨r, hm, rfl⟩ | ⟨r, f, v', hm, rfl⟩
      · exfalso
        obtain ⟨j, hl, rfl, rfl⟩ := op_fwait ho
        have hj : j = i := by rw [hl] at hw; simpa [widx] using hw
        subst hj
        have := C09_futex_wait_cannot_block N G hG s t v hr hd j e (Or.inr (Or.inr hl))
        omega
      · simp only [setLoc_loc, if_pos, setLoc_parked]
        exact ⟨key rAgain (fun f hf => by cases hf), hnp v⟩
      · simp only [setLoc_loc, if_pos, setLoc_parked]
        refine ⟨key r (fun f hf => ?_), hnp v⟩
        subst hf; simp [memEffect] at hm; exact hm.symm
      · simp only [setLoc_loc, if_pos, setLoc_parked, setMem_loc, setMem_parked]
        refine ⟨key r (fun f hf => ?_), hnp v⟩
        subst hf; simp [memEffect] at hm
    | wake v ws =>
      have : v = u := ha
      subst this
      obtain ⟨_, f, n, ho, _⟩ := exec_wake_gen he
      replace ho : op N G (s.loc v) = some (.fwake f n) := ho
      exfalso
      cases hl : s.loc v <;> rw [hl] at hw ho <;> simp [widx] at hw <;> simp [op] at ho
    | timeout v =>
      have : v = u := ha
      subst this
      obtain ⟨_, _, _, hpk, _⟩ := exec_unpark_gen (Or.inl he)
      rw [hnp v] at hpk; cases hpk
    | spurious v =>
      have : v = u := ha
      subst this
      obtain ⟨_, _, _, hpk, _⟩ := exec_unpark_gen (Or.inr he)
      rw [hnp v] at hpk; cases hpk
    | call v l =>
      have : v = u := ha
      subst this
      obtain ⟨_, _, hent, _, hpk, hloc, _⟩ := exec_call_gen he
      replace hent : entry N G false (s.loc v) l = true := hent
      rw [hloc, if_pos rfl, hpk]
      exact ⟨rem_entry hw hent, hnp v⟩

/-- **C09** (join): a worker that has left its loop has no further actions (its thread has ended;
`join()` in ~ThreadPool / resizeLocked returns). -/
theorem C09_exited_is_final (N G : Nat) (s s' : State (proto N G)) (a : Act (proto N G)) (u : TId)
    (i : Nat) (hr : Reachable (init N G) s) (hl : s.loc u = L.wExit i) (he : exec s a = some s') :
    s'.loc u = L.wExit i ∧ actor a ≠ u := by
  have I := inv_reachable hr
  have hp : s.parked u = none := by
    cases hpk : s.parked u with
    | none => rfl
    | some p =>
      obtain ⟨_, j, e, hl', _⟩ := I.pk u p.1 p.2 hpk
      rw [hl] at hl'; cases hl'
  refine ⟨by rw [loc_final he hp (by rw [hl]; rfl) (fun l' => by rw [hl]; rfl), hl], ?_⟩
  intro ha
  cases a with
  | step v =>
    have : v = u := ha
    subst this
    obtain ⟨_, o, ho, _⟩ := exec_step_gen he
    replace ho : op N G (s.loc v) = some o := ho
    rw [hl] at ho; cases ho
  | wake v ws =>
    have : v = u := ha
    subst this
    obtain ⟨_, f, n, ho, _⟩ := exec_wake_gen he
    replace ho : op N G (s.loc v) = some (.fwake f n) := ho
    rw [hl] at ho; cases ho
  | timeout v =>
    have : v = u := ha
    subst this
    obtain ⟨_, _, _, hpk, _⟩ := exec_unpark_gen (Or.inl he)
    rw [hp] at hpk; cases hpk
  | spurious v =>
    have : v = u := ha
    subst this
    obtain ⟨_, _, _, hpk, _⟩ := exec_unpark_gen (Or.inr he)
    rw [hp] at hpk; cases hpk
  | call v l =>
    have : v = u := ha
    subst this
    obtain ⟨_, _, hent, _⟩ := exec_call_gen he
    replace hent : entry N G false (s.loc v) l = true := hent
    rw [hl] at hent; cases hent


/-! ## The repaired defect: `wakeAll` skipped the futex wake for groups with an empty sleep mask -/

/-- two workers (threads 1, 2 = pool threads 0, 1 of one wake group) start, pass the loop guard and
park: enterSleep, running re-check, two epoch loads, futex wait -/
def parkBoth (P : Proto) (h : P.L = L) : List (Act P) :=
  [.call 1 (h ▸ L.wCur 0), .step 1, .call 1 (h ▸ L.wRun 0 0), .step 1, .call 1 (h ▸ L.wOr 0 0),
   .step 1, .step 1, .step 1, .step 1, .step 1, .step 1,
   .call 2 (h ▸ L.wCur 1), .step 2, .call 2 (h ▸ L.wRun 1 0), .step 2, .call 2 (h ▸ L.wOr 1 0),
   .step 2, .step 2, .step 2, .step 2, .step 2, .step 2]

/-- thread 3 calls claimAndWakeOne: it claims pool thread 0 (clears bit 0), bumps the epoch, and its
futex wake is delivered to thread 2 (pool thread 1), which returns from waitFor and runs exitSleep
(clearing its own bit: the mask is now empty while pool thread 0 is still blocked) -/
def claimWrong (P : Proto) (h : P.L = L) : List (Act P) :=
  [.call 3 (h ▸ L.cTot), .step 3, .step 3, .step 3, .step 3, .step 3, .wake 3 [2], .step 3,
   .step 2, .step 2, .step 2]

/-- thread 4 stops both threads and runs the pre-repair wakeAll: mask load (0), epoch bump, no wake -/
def stopOld : List (Act (protoOld 2 2)) :=
  [.call 4 (L.sStore 0 true), .step 4, .step 4, .step 4, .step 4]

def obsOld (s : State (protoOld 2 2)) : Bool :=
  decide (s.loc 4 = L.sDoneOld) && decide (s.mem (fRun 0) = 0) && decide (s.mem (fRun 1) = 0) &&
  decide (s.loc 1 = L.wWait 0 0) && decide (s.parked 1 = some (fEpoch 0, true)) &&
  decide (s.mem (fMask 0) = 0) && decide (s.mem (fEpoch 0) = 2) &&
  decide (s.threads = [4, 3, 2, 1]) &&
  s.threads.all (fun t => decide (t ≠ 1 → s.parked t = none ∧ op 2 2 (s.loc t) = none))

/-- **C09** (negative witness for the pre-repair code): with `wakeAll` issuing the futex wake only
for groups whose sleep mask is non-empty, a state is reachable in which `stopAll` has returned, both
`running_` flags are clear, pool thread 0 (thread 1) is blocked on the group futex holding epoch 0
while the epoch is 2 and the sleep mask is empty, and no other thread is blocked or has a pending
operation: nothing but the worker's own time-out ends its wait, `join()` waits for the backstop. -/
theorem C09_old_wakeAll_leaves_worker_parked :
    ∃ s : State (protoOld 2 2), Reachable (initOld 2 2) s ∧ s.loc 4 = L.sDoneOld ∧
      s.mem (fRun 0) = 0 ∧ s.mem (fRun 1) = 0 ∧ s.loc 1 = L.wWait 0 0 ∧
      s.parked 1 = some (fEpoch 0, true) ∧ s.mem (fMask 0) = 0 ∧ s.mem (fEpoch 0) = 2 ∧
      s.threads = [4, 3, 2, 1] ∧
      (∀ t ∈ s.threads, t ≠ 1 → s.parked t = none ∧ op 2 2 (s.loc t) = none) := by
  have w : (run (initOld 2 2) (parkBoth _ rfl ++ claimWrong _ rfl ++ stopOld)).map obsOld = some true := by
    decide
  obtain ⟨s, hr, ho⟩ := exists_of_run_obs obsOld w
  simp only [obsOld, Bool.and_eq_true, decide_eq_true_eq, List.all_eq_true] at ho
  obtain ⟨⟨⟨⟨⟨⟨⟨⟨h1, h2⟩, h3⟩, h4⟩, h5⟩, h6⟩, h7⟩, h8⟩, h9⟩ := ho
  exact ⟨s, hr, h1, h2, h3, h4, h5, h6, h7, h8, h9⟩

/-! ## Non-vacuity -/

/-- the same schedule with the current `wakeAll`: the stopper's wake-all releases pool thread 0 -/
def stopNew : List (Act (proto 2 2)) :=
  [.call 4 (L.sStore 0 false), .step 4, .step 4, .step 4, .wake 4 [1]]

/-- the hypotheses of `C09_stop_completes` are satisfiable by a state in which a worker was blocked
with its mask bit clear when the stop began: `stopAll` has returned, one worker is in the middle of
its wake-up path (`rem = 5`), the other between calls -/
example : ∃ s : State (proto 2 2), Reachable (init 2 2) s ∧ s.loc 4 = L.sDone ∧
    s.threads.length < intMax ∧ s.loc 1 = L.wE3 0 ∧ s.loc 2 = L.wIdle 1 1 ∧ s.parked 1 = none := by
  have w : (run (init 2 2) (parkBoth _ rfl ++ claimWrong _ rfl ++ stopNew)).map
      (fun s => decide (s.loc 4 = L.sDone) && decide (s.threads.length < intMax) &&
        decide (s.loc 1 = L.wE3 0) && decide (s.loc 2 = L.wIdle 1 1) && decide (s.parked 1 = none))
      = some true := by decide
  obtain ⟨s, hr, ho⟩ := exists_of_run_obs _ w
  simp only [Bool.and_eq_true, decide_eq_true_eq] at ho
  obtain ⟨⟨⟨⟨h1, h2⟩, h3⟩, h4⟩, h5⟩ := ho
  exact ⟨s, hr, h1, h2, h3, h4, h5⟩

/-- … and from there both workers leave their loops without any time-out action -/
example : ((run (init 2 2) (parkBoth _ rfl ++ claimWrong _ rfl ++ stopNew ++
      [.step 1, .step 1, .step 1, .call 1 (L.wRun 0 2), .step 1, .call 2 (L.wRun 1 1), .step 2])).map
    fun s => ((s.loc 1 : L), (s.loc 2 : L))) = some (L.wExit 0, L.wExit 1) := by decide

end Dispenso.Wake
