import DispensoVerif.Proofs.ThreadId

/-!
# C45 — `threadId()`: ids are unique per thread and stable

Model: `DispensoVerif/Model/ThreadId.lean` (field 0 = the global counter `nextThread`; the
thread-local cache `currentThread` is part of the thread's local state and survives between
calls; one model action per atomic operation).  All theorems hold for every reachable state, any
number of threads, any interleaving.  Counter wrap-around at `2^64` is excluded (values are
unbounded integers).
-/
namespace Dispenso.ThreadId
open Dispenso.Conc

/-- **C45.a** Distinct threads have distinct ids: two threads whose caches hold the same id are
the same thread. -/
theorem C45_unique (start : Int) (s : State proto) (h : Reachable (init start) s) (t u : TId)
    (a b : Int) : cacheOf (s.loc t) = some a → cacheOf (s.loc u) = some b → a = b → t = u := by
  intro ha hb hab
  subst hab
  exact (inv_reachable start s h).uniq t u a ha hb

/-- **C45.b** An id never changes once assigned: no action of any thread changes a valid cache. -/
theorem C45_stable (start : Int) (s s' : State proto) (h : Reachable (init start) s)
    (a : Act proto) (he : exec s a = some s') (t : TId) (v : Int) :
    cacheOf (s.loc t) = some v → cacheOf (s'.loc t) = some v := by
  exact eff_stable (exec_eff (inv_reachable start s h) he) t v

/-- **C45.c** Every assigned id lies in `[start, nextThread)`: it was handed out by a
`fetch_add` on the counter. -/
theorem C45_range (start : Int) (s : State proto) (h : Reachable (init start) s) (t : TId)
    (v : Int) : cacheOf (s.loc t) = some v → start ≤ v ∧ v < s.mem 0 :=
  (inv_reachable start s h).range t v

/-- the counter never decreases -/
theorem C45_counter_monotone (start : Int) (s s' : State proto) (h : Reachable (init start) s)
    (a : Act proto) (he : exec s a = some s') : s.mem 0 ≤ s'.mem 0 := by
  exact eff_mono (exec_eff (inv_reachable start s h) he)

/-- non-vacuity: two threads race for their first id (thread 2's `fetch_add` wins), then thread 1
calls `threadId()` again and gets its cached id back. -/
example :
    (run (init 5) [.call 1 L.fetch, .call 2 L.fetch, .step 2, .step 1, .call 1 (L.hit 6),
        .step 1]).map (fun s => ((s.loc 1 : L), (s.loc 2 : L), s.mem 0)) =
      some (L.idle (some 6), L.idle (some 5), 7) := by
  decide

/-- a thread with a valid cache cannot re-enter the `fetch_add` path -/
example : (run (init 5) [.call 1 L.fetch, .step 1, .call 1 L.fetch]).isNone = true := by
  decide

end Dispenso.ThreadId
