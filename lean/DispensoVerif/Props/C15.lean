import DispensoVerif.Model.ForEach
import DispensoVerif.Props.C17

/-!
# C15 — `for_each_n` applies the function exactly once per element

`plan n maxThreads wait poolThreads recursive` is the list of `(offset, size)` chunks
`for_each_n` hands to its tasks.  For every element count `n ≥ 0` (including 0), every
`maxThreads` (including 0 and 1), both values of `wait`, every pool size `≥ 0` (including
zero-thread pools) and both values of `recursive`:
* the non-empty chunks, read as `[offset, offset + size)`, tile `[0, n)` — `C15_partition`; hence
  every index is in exactly one chunk and no chunk reaches outside — `C15_exactly_once`;
* the chunk count handed to `staticChunkSize` is at least one (no division by zero), at most the
  clamped `maxThreads` and at most `poolThreads + 1` — `C15_numThreads_pos`;
* degenerate inputs run serially — `C15_serial`; the task count is bounded — `C15_tasks_bound`.
-/
namespace Dispenso.ForEach
open Dispenso Dispenso.Chunk Dispenso.ParFor

/-! ### tilings from monotone boundary sequences -/

/-- chunks as half-open intervals -/
def intervals (l : List (Int × Int)) : List (Int × Int) := l.map fun c => (c.1, c.1 + c.2)

/-- drop empty intervals -/
def nonEmpty (l : List (Int × Int)) : List (Int × Int) := l.filter fun c => decide (c.1 < c.2)

theorem tiles_of_mono (b : Nat → Int) : ∀ (N : Nat), MonoUpTo b N →
    Tiles (b 0) (b N) (nonEmpty ((List.range N).map fun i => (b i, b (i + 1))))
  | 0, _ => by simp [nonEmpty, Tiles]
  | N + 1, h => by
    have ih := tiles_of_mono b N (fun i hi => h i (by omega))
    have hN := h N (by omega)
    rw [List.range_succ, List.map_append, nonEmpty, List.filter_append]
    refine Tiles.append ih ?_
    by_cases hlt : b N < b (N + 1)
    · simp [hlt, Tiles]
    · have : b N = b (N + 1) := by omega
      simp [Tiles, this]

theorem coverCount_nonEmpty (l : List (Int × Int)) (x : Int) :
    coverCount (nonEmpty l) x = coverCount l x := by
  unfold coverCount nonEmpty
  rw [List.filter_filter]
  congr 1
  apply List.filter_congr
  intro c _
  by_cases h1 : c.1 ≤ x <;> by_cases h2 : x < c.2 <;> simp [h1, h2]
  all_goals omega

/-! ### the chunk count -/

/-- the chunk count of the non-serial branch (after the repair's clamp to at least one) -/
def numThreadsOf (n : Int) (maxThreads : Nat) (wait : Bool) (poolThreads : Int) : Int :=
  max (min (min (poolThreads + b2n wait) (clampMaxThreads maxThreads)) n) 1

theorem plan_nonserial (n : Int) (maxThreads : Nat) (wait : Bool) (poolThreads : Int)
    (recursive : Bool) (h : ¬ (n = 0 ∨ maxThreads = 0 ∨ recursive = true)) :
    plan n maxThreads wait poolThreads recursive =
      { serial := false,
        chunks := (List.range (numThreadsOf n maxThreads wait poolThreads).toNat).map
          fun (i : Nat) => forEachOffset n (numThreadsOf n maxThreads wait poolThreads) (i : Int),
        tasks := numThreadsOf n maxThreads wait poolThreads } := by
  unfold plan
  rw [if_neg h]
  rfl

theorem plan_serial (n : Int) (maxThreads : Nat) (wait : Bool) (poolThreads : Int)
    (recursive : Bool) (h : n = 0 ∨ maxThreads = 0 ∨ recursive = true) :
    plan n maxThreads wait poolThreads recursive =
      { serial := true, chunks := if n = 0 then [] else [(0, n)], tasks := 1 } := by
  unfold plan
  rw [if_pos h]

theorem clampMaxThreads_pos (mt : Nat) : 1 ≤ clampMaxThreads mt := by
  unfold clampMaxThreads
  exact Int.le_max_right _ _

theorem b2n_range (b : Bool) : 0 ≤ b2n b ∧ b2n b ≤ 1 := by
  cases b <;> simp [b2n]

theorem serial_iff (n : Int) (maxThreads : Nat) (wait : Bool) (poolThreads : Int)
    (recursive : Bool) :
    (plan n maxThreads wait poolThreads recursive).serial = true ↔
      (n = 0 ∨ maxThreads = 0 ∨ recursive = true) := by
  by_cases h : n = 0 ∨ maxThreads = 0 ∨ recursive = true
  · rw [plan_serial _ _ _ _ _ h]; simp [h]
  · rw [plan_nonserial _ _ _ _ _ h]; simp [h]

/-- **C15.2** In the non-serial branch the chunk list is `forEachOffset n numThreads i` for
`i < numThreads`, where the chunk count `numThreads` handed to `staticChunkSize` is at least one
(no division by zero), at most the clamped `maxThreads`, and at most `poolThreads + 1`. -/
theorem C15_numThreads_pos (n : Int) (maxThreads : Nat) (wait : Bool) (poolThreads : Int)
    (recursive : Bool) (hp : 0 ≤ poolThreads)
    (hs : (plan n maxThreads wait poolThreads recursive).serial = false) :
    let p := plan n maxThreads wait poolThreads recursive
    let nt := numThreadsOf n maxThreads wait poolThreads
    p.tasks = nt ∧
    p.chunks = (List.range nt.toNat).map (fun (i : Nat) => forEachOffset n nt (i : Int)) ∧
    1 ≤ nt ∧ nt ≤ max (clampMaxThreads maxThreads) 1 ∧ nt ≤ poolThreads + 1 := by
  intro p nt
  have h : ¬ (n = 0 ∨ maxThreads = 0 ∨ recursive = true) := by
    intro h
    have := (serial_iff n maxThreads wait poolThreads recursive).2 h
    rw [hs] at this
    cases this
  have hp' : p = _ := plan_nonserial n maxThreads wait poolThreads recursive h
  have hb := b2n_range wait
  have hc := clampMaxThreads_pos maxThreads
  refine ⟨by rw [hp'], by rw [hp'], ?_, ?_, ?_⟩ <;>
    (simp only [nt, numThreadsOf]; omega)

/-- **C15.2'** `maxThreads = 0`, an empty range, or a recursive call run serially in one task. -/
theorem C15_serial (n : Int) (maxThreads : Nat) (wait : Bool) (poolThreads : Int)
    (recursive : Bool) (h : maxThreads = 0 ∨ n = 0 ∨ recursive = true) :
    (plan n maxThreads wait poolThreads recursive).serial = true ∧
    (plan n maxThreads wait poolThreads recursive).tasks = 1 := by
  have h' : n = 0 ∨ maxThreads = 0 ∨ recursive = true := by
    rcases h with h | h | h
    · exact Or.inr (Or.inl h)
    · exact Or.inl h
    · exact Or.inr (Or.inr h)
  rw [plan_serial _ _ _ _ _ h']
  exact ⟨rfl, rfl⟩

/-- **C15.3** never more tasks than the clamped `maxThreads`. -/
theorem C15_tasks_bound (n : Int) (maxThreads : Nat) (wait : Bool) (poolThreads : Int)
    (recursive : Bool) :
    (plan n maxThreads wait poolThreads recursive).tasks ≤ max (clampMaxThreads maxThreads) 1 := by
  by_cases h : n = 0 ∨ maxThreads = 0 ∨ recursive = true
  · rw [plan_serial _ _ _ _ _ h]
    exact Int.le_max_right _ _
  · rw [plan_nonserial _ _ _ _ _ h]
    have hc := clampMaxThreads_pos maxThreads
    show numThreadsOf n maxThreads wait poolThreads ≤ _
    unfold numThreadsOf
    omega

/-- at least one task, always -/
theorem C15_tasks_pos (n : Int) (maxThreads : Nat) (wait : Bool) (poolThreads : Int)
    (recursive : Bool) : 1 ≤ (plan n maxThreads wait poolThreads recursive).tasks := by
  by_cases h : n = 0 ∨ maxThreads = 0 ∨ recursive = true
  · rw [plan_serial _ _ _ _ _ h]
  · rw [plan_nonserial _ _ _ _ _ h]
    show 1 ≤ numThreadsOf n maxThreads wait poolThreads
    unfold numThreadsOf
    omega

/-! ### the partition -/

theorem forEach_chunks_tile (n nt : Int) (hn : 0 ≤ n) (hnt : 1 ≤ nt) :
    Tiles 0 n (nonEmpty (intervals
      ((List.range nt.toNat).map fun (i : Nat) => forEachOffset n nt (i : Int)))) := by
  have wf : (mkMapper 0 n nt 1).WF :=
    mkMapper_wf 0 n nt 1 hn (by omega) (by omega) (Int.one_dvd _)
  have hmono := (mkMapper 0 n nt 1).bound_mono wf
  have h0 : (mkMapper 0 n nt 1).bound 0 = 0 := (mkMapper 0 n nt 1).start_zero wf
  have hN : (mkMapper 0 n nt 1).bound (mkMapper 0 n nt 1).numThreads.toNat = n :=
    (mkMapper 0 n nt 1).bound_last wf
  have hnum : (mkMapper 0 n nt 1).numThreads = nt := rfl
  rw [hnum] at hmono hN
  have key := tiles_of_mono (mkMapper 0 n nt 1).bound nt.toNat hmono
  rw [h0, hN] at key
  have hl : intervals ((List.range nt.toNat).map fun (i : Nat) => forEachOffset n nt (i : Int)) =
      (List.range nt.toNat).map fun i =>
        ((mkMapper 0 n nt 1).bound i, (mkMapper 0 n nt 1).bound (i + 1)) := by
    unfold intervals
    rw [List.map_map]
    apply List.map_congr_left
    intro i _
    simp only [Function.comp, forEachOffset_eq, Mapper.bound]
    have : ((i + 1 : Nat) : Int) = (i : Int) + 1 := by omega
    rw [this, Mapper.start_succ]
  rw [hl]
  exact key

/-- **C15.1** The non-empty chunks of `for_each_n`, read as `[offset, offset + size)`, are
contiguous from `0` to `n`: they tile `[0, n)`. -/
theorem C15_partition (n : Int) (maxThreads : Nat) (wait : Bool) (poolThreads : Int)
    (recursive : Bool) (hn : 0 ≤ n) (_hp : 0 ≤ poolThreads) :
    Tiles 0 n (nonEmpty (intervals (plan n maxThreads wait poolThreads recursive).chunks)) := by
  by_cases h : n = 0 ∨ maxThreads = 0 ∨ recursive = true
  · rw [plan_serial _ _ _ _ _ h]
    by_cases h0 : n = 0
    · subst h0; simp [intervals, nonEmpty, Tiles]
    · have : 0 < n := by omega
      simp [intervals, nonEmpty, Tiles, h0, this]
  · rw [plan_nonserial _ _ _ _ _ h]
    apply forEach_chunks_tile n _ hn
    unfold numThreadsOf
    omega

/-- **C15.1'** every index of `[0, n)` lies in exactly one chunk (the function is applied exactly
once per element) and no chunk contains an index outside `[0, n)`. -/
theorem C15_exactly_once (n : Int) (maxThreads : Nat) (wait : Bool) (poolThreads : Int)
    (recursive : Bool) (hn : 0 ≤ n) (hp : 0 ≤ poolThreads) (x : Int) :
    coverCount (intervals (plan n maxThreads wait poolThreads recursive).chunks) x =
      if 0 ≤ x ∧ x < n then 1 else 0 := by
  rw [← coverCount_nonEmpty]
  exact (C15_partition n maxThreads wait poolThreads recursive hn hp).coverCount_eq x

/-- the sizes of the chunks are non-negative -/
theorem C15_sizes_nonneg (n : Int) (maxThreads : Nat) (wait : Bool) (poolThreads : Int)
    (recursive : Bool) (hn : 0 ≤ n) :
    ∀ c ∈ (plan n maxThreads wait poolThreads recursive).chunks, 0 ≤ c.2 := by
  by_cases h : n = 0 ∨ maxThreads = 0 ∨ recursive = true
  · rw [plan_serial _ _ _ _ _ h]
    intro c hc
    by_cases h0 : n = 0
    · simp [h0] at hc
    · simp [h0] at hc; subst hc; exact hn
  · rw [plan_nonserial _ _ _ _ _ h]
    intro c hc
    have hnt : 1 ≤ numThreadsOf n maxThreads wait poolThreads := by unfold numThreadsOf; omega
    have wf : (mkMapper 0 n (numThreadsOf n maxThreads wait poolThreads) 1).WF :=
      mkMapper_wf 0 n _ 1 hn (by omega) (by omega) (Int.one_dvd _)
    simp only [List.mem_map, List.mem_range] at hc
    obtain ⟨i, hi, rfl⟩ := hc
    rw [forEachOffset_eq]
    exact Mapper.size_nonneg _ wf i (by
      show (i : Int) < numThreadsOf n maxThreads wait poolThreads
      omega)

/-! ### non-vacuity -/
example : (plan 10 4 true 8 false).chunks = [(0, 3), (3, 3), (6, 2), (8, 2)] := by decide
example : (plan 10 4 false 0 false).chunks = [(0, 10)] := by decide   -- zero-thread pool, no wait
example : (plan 10 4 false 0 false).tasks = 1 := by decide
example : (plan 0 4 true 8 false).chunks = [] := by decide
example : (plan 5 0 true 8 false).chunks = [(0, 5)] := by decide
example : (plan 3 8 true 8 false).chunks = [(0, 1), (1, 1), (2, 1)] := by decide
example : nonEmpty (intervals (plan 10 4 true 8 false).chunks) = [(0, 3), (3, 6), (6, 8), (8, 10)] := by
  decide

end Dispenso.ForEach
