import DispensoVerif.Proofs.SchedReach

/-!
# C03 (safety part) — no task sits in a ring that is outside the published ring count

Model: `DispensoVerif/Model/Sched.lean`; tier code `2r+1` = ring `r`; `nRings` = the ring count
published by the constructor / `resizeLocked` (`ctor`, `rings` events).

The ledger makes this an acceptance condition: `push` into ring `r` is only accepted when
`r < nRings`, and `rings n` (publishing a new count) is only accepted when no queued task sits in
a ring `≥ n`; `ctor` requires empty tiers.  So the statement is an inductive invariant of `step`
as written, and it holds even *while* a resize is in progress (`C03_rings_inside_always`); it
needs neither monotonicity of `nRings` nor any change of a rule.
-/
namespace Dispenso.Sched

theorem C03_rings_inside_always {s : St} (h : Reach s) :
    ∀ c ∈ s.tierItems, isRing c = true → ringIdx c < s.nRings := (Inv.reach h).ring

theorem C03_rings_inside {s : St} (h : Reach s) (_hr : s.resizing = false) :
    ∀ c ∈ s.tierItems, isRing c = true → ringIdx c < s.nRings := C03_rings_inside_always h

/-- the acceptance conditions that make it hold: a push outside the ring count is rejected … -/
theorem C03_push_outside_rejected {s : St} {t tier n : Nat} (hr : isRing tier = true)
    (ho : s.nRings ≤ ringIdx tier) : step s t (.push tier n) = none := by
  have : ¬ (ringIdx tier < s.nRings) := by omega
  simp [step, hr, this]

/-- … and so is shrinking the ring count below a ring that holds work -/
theorem C03_shrink_over_work_rejected {s : St} {t n c : Nat} (hc : c ∈ s.tierItems)
    (hr : isRing c = true) (ho : n ≤ ringIdx c) : step s t (.rings n) = none := by
  cases hstep : step s t (.rings n) with
  | none => rfl
  | some s' =>
    obtain ⟨f, rest, _, hst⟩ := step_inv' hstep
    cases hst with
    | rings _ hk hall => have := hall c hc hr; omega

/-! ### non-vacuity -/


example : (run (St.init 0) sampleRingTrace).map (fun s => (s.tierItems, s.nRings, s.ended))
    = some ([], 1, [7]) := rfl

example : (run (St.init 0) (sampleRingTrace.take 6)).map (fun s => (s.tierItems, s.nRings))
    = some ([1], 1) := rfl

/-- pushing into ring 1 of a one-ring pool is rejected -/
example : (run (St.init 0) (sampleRingTrace.take 5 ++ [(0, .push 3 1)])).isSome = false := rfl

end Dispenso.Sched
