/-
Model of `dispenso::parallel_invoke` (dispenso/parallel_invoke.h) over an abstract task set — C16.

  parallel_invoke(tasks, f1, f2, …, fn):   tasks.schedule(f1, /*skipRecheck=*/true);
                                           parallel_invoke(tasks, f2, …, fn);
  parallel_invoke(tasks, f):               f();

i.e. the functors but the last are handed to `ConcurrentTaskSet::schedule` one after the other and
the last one is called directly.  `schedule(f, skipRecheck)` either calls `f` inline on the calling
thread before it returns (task_set.h: the load-factor branch of `schedulePlaced` / `schedule`) or
packages it as a task (`outstandingTaskCount_` + 1) that some thread executes; `wait()` returns when
no task of the set is outstanding.  That is the abstract task-set specification the theorems are
relative to (C01/C02: a queued task is executed exactly once; `wait()` returns only when all are done);
cancellation and exceptions are outside this model.

Recursive use.  A functor may itself call `parallel_invoke` on the same task set (divide and conquer):
a *program* is a tree given by `P : Path → Nat`, `P p` = number of functors of the `parallel_invoke`
call made by node `p` (0: the functor makes no such call); the children of `p` are `p ++ [0]`, …,
`p ++ [P p - 1]`; the root `[]` is the top-level call site (not a functor).  Every node runs on some
thread: the node that calls `parallel_invoke` is suspended while a functor runs inline inside it.

Actions (any interleaving; `k p` = number of functors node `p` has dealt with so far):
  `queue p`        `tasks.schedule(f_k)` packages the functor as a task        (only for k + 1 < P p)
  `runInline p`    functor `k` is invoked on `p`'s thread: by `schedule`'s inline branch
                   (k + 1 < P p) or as the last functor (k + 1 = P p)
  `finishInline p` the functor running inline inside `p` returns (it has finished its own call)
  `take c t`       thread `t` starts executing the queued task `c`
  `finishTask c`   a task (or the top-level call) returns
  `waitDone`       `tasks.wait()` returns: the top-level call has returned and no task is outstanding
Core Lean only.
-/
namespace Dispenso.ParInvoke

abbrev Path := List Nat

inductive Status where
  | untouched | queued | running | finished
  deriving Repr, DecidableEq

structure St where
  status : Path → Status
  k : Path → Nat
  inl : Path → Option Path     -- the functor currently running inline inside the node
  thr : Path → Nat             -- the thread the node runs on
  asTask : Path → Bool         -- executed as a task of the set (else: inline / the top-level call)
  count : Path → Nat           -- number of invocations of the functor
  live : List Path             -- the set's outstanding tasks (queued or being executed)
  waited : Bool

def upd {α : Type} (f : Path → α) (p : Path) (v : α) : Path → α := fun q => if q = p then v else f q

def St.init : St :=
  { status := fun p => if p = [] then .running else .untouched, k := fun _ => 0, inl := fun _ => none,
    thr := fun _ => 0, asTask := fun _ => false, count := fun _ => 0, live := [], waited := false }

inductive Act where
  | queue (p : Path) | runInline (p : Path) | finishInline (p : Path) | finishTask (c : Path)
  | take (c : Path) (t : Nat) | waitDone
  deriving Repr, DecidableEq

def step (P : Path → Nat) (s : St) : Act → Option St
  | .queue p =>
    if s.status p = .running ∧ s.inl p = none ∧ s.k p + 1 < P p then
      some { s with status := upd s.status (p ++ [s.k p]) .queued
                    live := (p ++ [s.k p]) :: s.live
                    k := upd s.k p (s.k p + 1) }
    else none
  | .runInline p =>
    if s.status p = .running ∧ s.inl p = none ∧ s.k p < P p then
      some { s with status := upd s.status (p ++ [s.k p]) .running
                    thr := upd s.thr (p ++ [s.k p]) (s.thr p)
                    count := upd s.count (p ++ [s.k p]) (s.count (p ++ [s.k p]) + 1)
                    inl := upd s.inl p (some (p ++ [s.k p]))
                    k := upd s.k p (s.k p + 1) }
    else none
  | .finishInline p =>
    match s.inl p with
    | some c =>
      if s.status c = .running ∧ s.inl c = none ∧ s.k c = P c then
        some { s with status := upd s.status c .finished, inl := upd s.inl p none }
      else none
    | none => none
  | .finishTask c =>
    if s.status c = .running ∧ (s.asTask c = true ∨ c = []) ∧ s.inl c = none ∧ s.k c = P c then
      some { s with status := upd s.status c .finished, live := s.live.filter (· ≠ c) }
    else none
  | .take c t =>
    if s.status c = .queued then
      some { s with status := upd s.status c .running, asTask := upd s.asTask c true
                    thr := upd s.thr c t, count := upd s.count c (s.count c + 1) }
    else none
  | .waitDone =>
    if s.status [] = .finished ∧ s.live = [] ∧ s.waited = false then some { s with waited := true }
    else none

def run (P : Path → Nat) (s : St) : List Act → Option St
  | [] => some s
  | a :: as => match step P s a with
    | some s' => run P s' as
    | none => none

/-- every state some interleaving of the threads can reach -/
inductive Reachable (P : Path → Nat) : St → Prop where
  | init : Reachable P St.init
  | step {s s' : St} (a : Act) : Reachable P s → step P s a = some s' → Reachable P s'

/-- the functors of the program: the children of the root, their children, … -/
inductive InTree (P : Path → Nat) : Path → Prop where
  | root : InTree P []
  | child {p : Path} (i : Nat) : InTree P p → i < P p → InTree P (p ++ [i])

end Dispenso.ParInvoke
