/-
Model of `dispenso::detail::OpResult<T>` (dispenso/detail/op_result.h) — C40.
An `OpResult` object is `Option Int` (the tag of the contained object); `live` counts contained
objects constructed and not yet destroyed, exactly as the code constructs/destroys them
(placement-new = +1, explicit destructor call = -1).  `step` mirrors the repaired code, in which the
move constructor / move assignment destroy the moved-from contained object before disengaging the
source; `stepOld` keeps the original behaviour (source disengaged without destruction).
Core Lean only.
-/
namespace Dispenso.OpResult

structure St where
  objs : List (Nat × Option Int)    -- live OpResult objects, by id
  live : Int                        -- contained objects alive
  next : Nat
  deriving Repr

def St.init : St := { objs := [], live := 0, next := 0 }

inductive Op where
  | mkEmpty
  | mkVal (v : Int)
  | copyCtor (src : Nat)
  | moveCtor (src : Nat)
  | copyAssign (dst src : Nat)
  | moveAssign (dst src : Nat)
  | emplace (dst : Nat) (v : Int)
  | destroy (o : Nat)
  | query (o : Nat)
  deriving Repr

def get (s : St) (o : Nat) : Option (Option Int) := (s.objs.find? (·.1 = o)).map (·.2)

def set (s : St) (o : Nat) (c : Option Int) : St :=
  { s with objs := s.objs.map fun p => if p.1 = o then (p.1, c) else p }

def b2i (b : Bool) : Int := if b then 1 else 0

/-- output: `none` = operation rejected (unknown object); otherwise (engaged flag, value or 0, live) -/
def out (s : St) (c : Option Int) : Option (Int × Int × Int) :=
  some (b2i c.isSome, c.getD 0, s.live)

def stepGen (destroyMovedFrom : Bool) (s : St) : Op → St × Option (Int × Int × Int)
  | .mkEmpty =>
    let s' := { s with objs := s.objs ++ [(s.next, none)], next := s.next + 1 }
    (s', out s' none)
  | .mkVal v =>
    let s' := { s with objs := s.objs ++ [(s.next, some v)], next := s.next + 1, live := s.live + 1 }
    (s', out s' (some v))
  | .copyCtor src =>
    match get s src with
    | none => (s, none)
    | some c =>
      let s' := { s with objs := s.objs ++ [(s.next, c)], next := s.next + 1, live := s.live + b2i c.isSome }
      (s', out s' c)
  | .moveCtor src =>
    match get s src with
    | none => (s, none)
    | some c =>
      -- construct the new contained object from the source's; then (repaired code) destroy the
      -- moved-from object; the source is disengaged either way
      let s1 := { s with objs := s.objs ++ [(s.next, c)], next := s.next + 1, live := s.live + b2i c.isSome }
      let s2 := set s1 src none
      let s3 := if destroyMovedFrom then { s2 with live := s2.live - b2i c.isSome } else s2
      (s3, out s3 c)
  | .copyAssign dst src =>
    match get s dst, get s src with
    | some d, some c =>
      if dst = src then (s, out s d) else
      let s1 := { s with live := s.live - b2i d.isSome + b2i c.isSome }
      let s2 := set s1 dst c
      (s2, out s2 c)
    | _, _ => (s, none)
  | .moveAssign dst src =>
    match get s dst, get s src with
    | some d, some c =>
      if dst = src then (s, out s d) else
      let s1 := { s with live := s.live - b2i d.isSome + b2i c.isSome }
      let s2 := set (set s1 dst c) src none
      let s3 := if destroyMovedFrom then { s2 with live := s2.live - b2i c.isSome } else s2
      (s3, out s3 c)
    | _, _ => (s, none)
  | .emplace dst v =>
    match get s dst with
    | some d =>
      let s1 := { s with live := s.live - b2i d.isSome + 1 }
      let s2 := set s1 dst (some v)
      (s2, out s2 (some v))
    | none => (s, none)
  | .destroy o =>
    match get s o with
    | some d =>
      let s1 := { s with objs := s.objs.filter (·.1 ≠ o), live := s.live - b2i d.isSome }
      (s1, out s1 none)
    | none => (s, none)
  | .query o =>
    match get s o with
    | some d => (s, out s d)
    | none => (s, none)

def step := stepGen true
def stepOld := stepGen false

/-- number of engaged objects -/
def engaged (s : St) : Int := ((s.objs.filter fun p => p.2.isSome).length : Nat)

def runOps (f : St → Op → St × Option (Int × Int × Int)) (s : St) : List Op → St
  | [] => s
  | o :: os => runOps f (f s o).1 os

end Dispenso.OpResult
