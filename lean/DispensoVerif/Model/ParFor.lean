import DispensoVerif.Model.Chunk
/-
Model of the planning logic of `dispenso::parallel_for` (dispenso/parallel_for.h,
detail/par_for_static.h, detail/par_for_dynamic.h, detail/par_for_stripe.h) — C12, C13, C48.

`chunksOf cfg` is the list of `[s, e)` sub-ranges the body is invoked with. In every mode this is a
function of the configuration only: static chunks come from the C17 mapper; dynamic chunks are
`start + k * chunkSize`; stripe chunks are cut from each stripe at multiples of the chunk size
whoever claims them (the atomic cursors only decide *who* runs a chunk).
Index values are unbounded `Int`; `size_type` arithmetic is assumed not to overflow
(`end - start < 2^63`, the documented limit). The original code narrowed the adaptive chunk size
to `IntegerT` (`Ty.wrap`) before handing it to the stripes; the repaired code keeps it wide.
`stripeBounds` follows the repaired code (stripe ends aligned to the granularity relative to
`start`); `stripeBoundsOld` keeps the original absolute alignment.
Core Lean only.
-/
namespace Dispenso.ParFor
open Dispenso.Chunk

structure Ty where
  bits : Nat
  signed : Bool
  deriving Repr, DecidableEq

def Ty.maxVal (t : Ty) : Int := if t.signed then 2 ^ (t.bits - 1) - 1 else 2 ^ t.bits - 1
def Ty.minVal (t : Ty) : Int := if t.signed then -(2 ^ (t.bits - 1)) else 0

/-- static_cast<IntegerT>(x) -/
def Ty.wrap (t : Ty) (x : Int) : Int :=
  let m : Int := 2 ^ t.bits
  let y := x % m
  if t.signed ∧ y ≥ m / 2 then y - m else y

structure Cfg where
  ty : Ty
  start : Int
  stop : Int
  chunk : Int               -- ChunkedRange::chunk: 0 = auto/adaptive, ty.maxVal = static, otherwise explicit
  maxThreads : Nat          -- ParForOptions (uint32_t)
  wait : Bool
  minItemsPerChunk : Nat
  granularity : Nat
  poolThreads : Nat         -- taskSet.numPoolThreads()
  recursive : Bool          -- isParForRecursive(pool)
  deriving Repr

def b2n (b : Bool) : Int := if b then 1 else 0

def ceilDiv (a b : Int) : Int := (a + b - 1).tdiv b

/-- std::max<int32_t>(options.maxThreads, 1): the uint32 is converted to int32 first -/
def clampMaxThreads (mt : Nat) : Int :=
  let v : Int := (mt : Int) % 4294967296
  let s := if v ≥ 2147483648 then v - 4294967296 else v
  max s 1

/-- computeGranularity: (granularity, trimmedEnd, hasTail) -/
def computeGranularity (c : Cfg) : Int × Int × Bool :=
  let g : Int := if c.chunk = 0 ∨ c.chunk = c.ty.maxVal then max 1 (c.granularity : Int) else 1
  if g > 1 then
    let rem := (c.stop - c.start) % g
    if rem > 0 then (g, c.stop - rem, true) else (g, c.stop, false)
  else (g, c.stop, false)

/-- adjustChunkSizing over the trimmed range: (maxThreads, isStatic) -/
def adjustChunkSizing (size : Int) (isAuto isStaticRange : Bool) (maxThreads : Int) (isStatic : Bool)
    (minItems : Int) (poolThreads : Int) (wait : Bool) : Int × Bool :=
  let maxThreads := min maxThreads (poolThreads + 1)
  if minItems > 1 then
    let maxWorkers := size.tdiv minItems
    let maxThreads := if maxWorkers < maxThreads then maxWorkers else maxThreads
    if maxThreads > 0 ∧ size.tdiv (maxThreads + b2n wait) < minItems ∧ isAuto then (maxThreads, true)
    else (maxThreads, isStatic)
  else if size ≤ poolThreads + b2n wait then
    if isAuto then (maxThreads, true)
    else if ¬ isStaticRange then (min maxThreads (size - b2n wait), isStatic)   -- repaired: min with the caller's budget
    else (maxThreads, isStatic)
  else (maxThreads, isStatic)

/-- the do-while of calcChunkSize for the adaptive case (fuel = dynFactor + 1 iterations at most) -/
def calcAdaptive (size workingThreads minChunk g : Int) : Nat → Int → Int
  | 0, _ => size
  | fuel + 1, dynFactor =>
    let roughChunks := dynFactor * workingThreads
    let cs0 := ceilDiv size roughChunks
    let cs := if g > 1 then ceilDiv cs0 g * g else cs0
    if cs < minChunk then calcAdaptive size workingThreads minChunk g fuel (dynFactor - 1) else cs

/-- ChunkedRange::calcChunkSize: (chunkSize, numChunks) -/
def calcChunkSize (size chunk : Int) (numLaunched : Int) (oneOnCaller : Bool) (minChunk g maxDynFactor : Int) : Int × Int :=
  let workingThreads := numLaunched + b2n oneOnCaller
  if chunk = 0 then
    let dynFactor := min maxDynFactor (size.tdiv workingThreads)
    let cs := calcAdaptive size workingThreads minChunk g (dynFactor.toNat + 1) dynFactor
    (cs, ceilDiv size cs)
  else (chunk, ceilDiv size chunk)

/-- chunks of the dynamic paths: `start + k * chunkSize`, the last one ending at `stop` -/
def dynChunks (start stop chunkSize numChunks : Int) : List (Int × Int) :=
  (List.range numChunks.toNat).map fun (k : Nat) =>
    let s := start + (k : Int) * chunkSize
    (s, if (k : Int) + 1 = numChunks then stop else s + chunkSize)

/-- stripe end boundaries (repaired: aligned to the granularity relative to `start`) -/
def stripeBounds (start stop : Int) (numWorkers g : Int) : List Int :=
  let total := stop - start
  let per := total.tdiv numWorkers
  (List.range numWorkers.toNat).map fun (i : Nat) =>
    if (i : Int) + 1 = numWorkers then stop
    else
      let rel := ((i : Int) + 1) * per
      let rel := if g > 1 then rel - rel % g else rel
      start + rel

/-- original code: `alignDownStripe(static_cast<IntegerT>(endWide), g)` aligns absolutely -/
def stripeBoundsOld (start stop : Int) (numWorkers g : Int) : List Int :=
  let total := stop - start
  let per := total.tdiv numWorkers
  (List.range numWorkers.toNat).map fun (i : Nat) =>
    if (i : Int) + 1 = numWorkers then stop
    else
      let e := start + ((i : Int) + 1) * per
      if g > 1 then (e.fdiv g) * g else e

/-- the chunks one stripe `[lo, hi)` yields with claim size `cs > 0` (fuel bounds the walk) -/
def stripeChunks (lo hi cs : Int) : Nat → List (Int × Int)
  | 0 => []
  | fuel + 1 => if lo < hi then (lo, min (lo + cs) hi) :: stripeChunks (lo + cs) hi cs fuel else []

/-- walk the stripes: cursor starts at `start`; each boundary is clamped to `[cursor, stop]` -/
def stripesFrom (cursor stop cs : Int) : List Int → List (Int × Int)
  | [] => []
  | b :: bs =>
    let e := min (max b cursor) stop
    stripeChunks cursor e cs ((e - cursor).toNat + 1) ++ stripesFrom e stop cs bs

inductive Mode where
  | none | serial | static_ | dynamic | stripes
  deriving Repr, DecidableEq

structure Plan where
  mode : Mode
  chunks : List (Int × Int)   -- in the order described above (tail last)
  tasks : Int                 -- loop tasks that may run concurrently (scheduled + caller)
  tailConcurrent : Bool       -- a granularity tail is run by the caller while scheduled chunks may still run
                              -- (always false for the repaired code)
  deriving Repr

def tailChunks (trimmedEnd stop : Int) (hasTail : Bool) : List (Int × Int) :=
  if hasTail then [(trimmedEnd, stop)] else []

/-- parallel_for(taskSet, states, defaultState, range, f, options) -/
def plan (c : Cfg) : Plan :=
  if c.stop ≤ c.start then { mode := .none, chunks := [], tasks := 0, tailConcurrent := false } else
  let (g, trimmedEnd, hasTail) := computeGranularity c
  let minItems : Int := max 1 (c.minItemsPerChunk : Int)
  let maxThreads := clampMaxThreads c.maxThreads
  let isStaticRange := decide (c.chunk = c.ty.maxVal)
  let isAuto := decide (c.chunk = 0)
  let N : Int := c.poolThreads
  let serial : Plan := { mode := .serial, chunks := [(c.start, c.stop)], tasks := 1, tailConcurrent := false }
  if trimmedEnd ≤ c.start ∨ N = 0 ∨ c.recursive then serial else
  let size := trimmedEnd - c.start
  let (maxThreads, isStatic) := adjustChunkSizing size isAuto isStaticRange maxThreads isStaticRange minItems N c.wait
  if maxThreads < 2 then serial else
  let tail := tailChunks trimmedEnd c.stop hasTail
  if isStatic then
    let numThreads := min (min (N + 1) maxThreads) size
    let numThreads := if g > 1 ∧ size.tdiv g < numThreads then max 1 (size.tdiv g) else numThreads
    let m := mkMapper c.start trimmedEnd numThreads g
    -- repaired code: with wait = false the granularity tail is folded into the last chunk (its end
    -- becomes `stop`); with wait = true the caller runs the tail after the barrier
    if hasTail ∧ ¬ c.wait then
      { mode := .static_, chunks := ({ m with rangeEnd := c.stop } : Mapper).chunks, tasks := numThreads,
        tailConcurrent := false }
    else
      { mode := .static_, chunks := m.chunks ++ tail, tasks := numThreads, tailConcurrent := false }
  else
    let numToLaunch := min (maxThreads - b2n c.wait) N
    let (chunkSize, numChunks) := calcChunkSize size c.chunk numToLaunch c.wait minItems g 16
    if isAuto ∧ c.wait then
      let workers := numToLaunch + 1
      let acs := (calcChunkSize size c.chunk numToLaunch true minItems g 64).1
      -- repaired code: the chunk size stays in the 64-bit wide type (it used to be narrowed to IntegerT)
      let cs := acs
      { mode := .stripes, chunks := stripesFrom c.start trimmedEnd cs (stripeBounds c.start trimmedEnd workers g) ++ tail,
        tasks := workers, tailConcurrent := false }
    else
      { mode := .dynamic, chunks := dynChunks c.start trimmedEnd chunkSize numChunks ++ tail,
        tasks := numToLaunch + b2n c.wait, tailConcurrent := false }

def chunksOf (c : Cfg) : List (Int × Int) := (plan c).chunks

end Dispenso.ParFor
