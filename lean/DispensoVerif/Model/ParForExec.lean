import DispensoVerif.Model.ParFor
/-
Execution model of one `dispenso::parallel_for` call with a states container (C14): which body
invocation uses which element of `states`, and which invocations can overlap in time.

Actors.  A call has `W` *actors*: the tasks handed to `taskSet.scheduleBulk` and, with
`wait = true`, the calling thread's own share of the loop.  Actor `a` is bound to `states[a]` when
the tasks are created (par_for_static.h:133 `std::advance(stateIt, chunkIdx)`, par_for_dynamic.h:230
`std::advance(stateIt, i)` and :237 for the caller, parallel_for.h:509/515 for the stripe workers), so
an actor's body invocations are sequential by program order and use `states[a]`.  Which OS thread
runs an actor is irrelevant (a pool thread, or the caller inside `scheduleBulk`'s inline branch or
inside `wait()`); the model lets actors interleave arbitrarily.

Worker loop (one atomic operation or one body boundary per action):
  `pick a k`   the actor obtains chunk `k`:
               dynamic   `cur = index.fetch_add(1)` with `cur < numChunks` (par_for_dynamic.h:212),
               static    its own chunk `k = a`,
               stripes / multi-group dynamic: any chunk nobody has claimed yet (abstraction of the
               per-stripe / per-group cursors, which only decide *who* gets a chunk; see C12);
  `begin a` / `end_ a`   the body `f(states[a], chunk k)` starts / returns;
  `leave a`    the actor leaves its loop: dynamic `cur = index.fetch_add(1)` with `cur ≥ numChunks`
               (the *exit ticket* `cur`), multi-group dynamic `exitCounter.fetch_add(1)`
               (par_for_dynamic.h:117; recorded as `numChunks + prev`, which is what is passed to
               `exitAction`), static: after its chunk, stripes: when every chunk is claimed;
  `exitStep a` `exitAction(cur)`: with `wait = false` on the dynamic paths the holder of the last
               exit ticket `numChunks + W - 1` runs the granularity tail on `states[0]`
               (par_for_dynamic.h:284-287) — `tail` — everyone else is done;
  `endTail a`  that tail invocation returns.
Calling thread (`wait = true`): `barrier` = its own share is finished and `taskSet.wait()` returned,
which by the task-set specification (C02) requires every scheduled task to have finished; then
`cBeginTail` / `cEndTail` = `runTail()` on `states[0]` (parallel_for.h:577); `ret` = a
`wait = false` call returns (possible at any time); `waitDone` = the task set's `wait()` returns
after the call.

`xc` / `xt` are ghost: the number of actors that have left and the order in which they did.
Sequentially consistent interleaving semantics; see the claim text for the memory-order remark.
Core Lean only.
-/
namespace Dispenso.ParForExec
open Dispenso.ParFor

inductive Kind where
  | serial | static_ | dynamic | dynamicMG | stripes
  deriving Repr, DecidableEq

structure Sys where
  kind : Kind
  W : Nat            -- actors
  numChunks : Nat    -- chunks of the parallel part (without a separately invoked tail)
  wait : Bool
  hasTail : Bool     -- the granularity tail is a separate invocation on `states[0]`
  deriving Repr, DecidableEq

inductive Pc where
  | ready | claimed (k : Nat) | body (k : Nat) | exited (t : Nat) | tail | done
  deriving Repr, DecidableEq

inductive CPc where
  | running | tailPending | inTail | returned
  deriving Repr, DecidableEq

structure St where
  pc : Nat → Pc
  index : Nat
  taken : Nat → Bool
  xc : Nat
  xt : Nat → Option Nat
  caller : CPc
  waited : Bool
  tails : Nat

def St.init : St :=
  { pc := fun _ => .ready, index := 0, taken := fun _ => false, xc := 0, xt := fun _ => none,
    caller := .running, waited := false, tails := 0 }

inductive Act where
  | pick (a k : Nat) | begin (a : Nat) | end_ (a : Nat) | leave (a : Nat) | exitStep (a : Nat)
  | endTail (a : Nat) | barrier | cBeginTail | cEndTail | ret | waitDone
  deriving Repr, DecidableEq

/-- the tail is run by the last worker to leave (dynamic paths, `wait = false`) -/
def Sys.tailByWorker (S : Sys) : Bool :=
  (S.kind == .dynamic || S.kind == .dynamicMG) && !S.wait && S.hasTail

/-- `lastExit = numChunks + numToLaunch - 1` -/
def Sys.lastExit (S : Sys) : Nat := S.numChunks + S.W - 1

def allDone (S : Sys) (s : St) : Bool := (List.range S.W).all fun a => s.pc a == .done
def allTaken (S : Sys) (s : St) : Bool := (List.range S.numChunks).all fun k => s.taken k

def pickOk (S : Sys) (s : St) (a k : Nat) : Bool :=
  match S.kind with
  | .dynamic => k == s.index
  | .static_ => k == a
  | .serial => k == a
  | .dynamicMG => true
  | .stripes => true

def leaveOk (S : Sys) (s : St) (a : Nat) : Bool :=
  match S.kind with
  | .dynamic => decide (S.numChunks ≤ s.index)
  | .static_ => s.taken a
  | .serial => s.taken a
  | .dynamicMG => true
  | .stripes => allTaken S s

/-- the shared index after one more `fetch_add(1)` (only the single-group dynamic path has it) -/
def bump (S : Sys) (i : Nat) : Nat := if S.kind = .dynamic then i + 1 else i

/-- the value handed to `exitAction`: the exit ticket (dynamic) / `numChunks + prev` (multi-group) -/
def exitTicket (S : Sys) (s : St) : Nat := if S.kind = .dynamic then s.index else S.numChunks + s.xc

def afterBarrier (S : Sys) : CPc := if S.hasTail then .tailPending else .returned

def setPc (s : St) (a : Nat) (p : Pc) : St :=
  { s with pc := fun b => if b = a then p else s.pc b }

def step (S : Sys) (s : St) : Act → Option St
  | .pick a k =>
    if a < S.W ∧ s.pc a = .ready ∧ k < S.numChunks ∧ s.taken k = false ∧ pickOk S s a k = true then
      some { setPc s a (.claimed k) with
              taken := fun j => if j = k then true else s.taken j
              index := bump S s.index }
    else none
  | .begin a =>
    match s.pc a with
    | .claimed k => some (setPc s a (.body k))
    | _ => none
  | .end_ a =>
    match s.pc a with
    | .body _ => some (setPc s a .ready)
    | _ => none
  | .leave a =>
    if a < S.W ∧ s.pc a = .ready ∧ leaveOk S s a = true then
      some { setPc s a (.exited (exitTicket S s)) with
              index := bump S s.index
              xc := s.xc + 1
              xt := fun b => if b = a then some s.xc else s.xt b }
    else none
  | .exitStep a =>
    match s.pc a with
    | .exited t =>
      if S.tailByWorker = true ∧ t = S.lastExit then some { setPc s a .tail with tails := s.tails + 1 }
      else some (setPc s a .done)
    | _ => none
  | .endTail a =>
    match s.pc a with
    | .tail => some (setPc s a .done)
    | _ => none
  | .barrier =>
    if S.wait = true ∧ s.caller = .running ∧ allDone S s = true then
      some { s with caller := afterBarrier S }
    else none
  | .cBeginTail =>
    if s.caller = .tailPending then some { s with caller := .inTail, tails := s.tails + 1 } else none
  | .cEndTail =>
    if s.caller = .inTail then some { s with caller := .returned } else none
  | .ret =>
    if S.wait = false ∧ s.caller = .running then some { s with caller := .returned } else none
  | .waitDone =>
    if s.caller = .returned ∧ allDone S s = true ∧ s.waited = false then some { s with waited := true }
    else none

def run (S : Sys) (s : St) : List Act → Option St
  | [] => some s
  | a :: as => match step S s a with
    | some s' => run S s' as
    | none => none

/-- every state any interleaving of the actors and the calling thread can reach -/
inductive Reachable (S : Sys) : St → Prop where
  | init : Reachable S St.init
  | step {s s' : St} (a : Act) : Reachable S s → step S s a = some s' → Reachable S s'

/-- the element of `states` actor `a` is using right now -/
def uses (s : St) (a : Nat) : Option Nat :=
  match s.pc a with
  | .body _ => some a
  | .tail => some 0
  | _ => none

/-- the element the calling thread is using in `runTail()` -/
def callerUses (s : St) : Option Nat := if s.caller = .inTail then some 0 else none

/-! ### the call's system, derived from the planning model -/

/-- the plan's last chunk is a separately invoked granularity tail -/
def tailSep (c : Cfg) : Bool :=
  (computeGranularity c).2.2 &&
    ((plan c).mode == .dynamic || (plan c).mode == .stripes || ((plan c).mode == .static_ && c.wait))

def sysOf (c : Cfg) : Sys :=
  let p := plan c
  let W := p.tasks.toNat
  { kind := match p.mode with
      | .none => .serial
      | .serial => .serial
      | .static_ => .static_
      | .stripes => .stripes
      | .dynamic => if W > 16 then .dynamicMG else .dynamic   -- effectiveGroups > 1 iff totalWorkers > 16
    W := W
    numChunks := p.chunks.length - (if tailSep c then 1 else 0)
    -- serial / empty: the caller runs the single invocation itself and only then returns
    wait := c.wait || p.mode == .serial || p.mode == .none
    hasTail := tailSep c }

/-- `initStates(states, defaultState, numNeeded, reuseExistingState)`: `numNeeded` is the number of
actors in every branch (1 serial, `numThreads` static, `numToLaunch + wait` dynamic / stripes) -/
def statesNeeded (c : Cfg) : Nat := (plan c).tasks.toNat

/-- size of the container after the call (`prev` = size before, `reuse` = reuseExistingState);
an empty range returns before `initStates` and leaves the container untouched -/
def statesAfter (c : Cfg) (prev : Nat) (reuse : Bool) : Nat :=
  if (plan c).mode = .none then prev
  else if reuse then max prev (statesNeeded c) else statesNeeded c

end Dispenso.ParForExec
