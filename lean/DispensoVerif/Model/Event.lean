import DispensoVerif.Core.Trace
/-
Model of the Linux variant of `CompletionEventImpl` (dispenso/detail/completion_event_impl.h),
`CompletionEvent` (completion_event.h) and `Latch` (latch.h) — C20, C21.
One model action per atomic operation / futex call of the code. Field 0 is the status word
(`status_` and `ftx_` are the same 32-bit word).
Core Lean only.
-/
namespace Dispenso.Event
open Dispenso.Conc

def intMax : Nat := 2147483647

inductive L where
  | idle
  | done (ret : Int)
  -- CompletionEventImpl::notify(c)
  | ntStore (c : Int)
  | ntWake
  -- CompletionEventImpl::wait(c)
  | wLoad (c : Int)
  | wWait (c cur : Int)
  -- CompletionEventImpl::waitFor(c, rel): first check, then (rel > 0) the timed loop
  | wfLoad0 (c : Int) (relPos : Bool)
  | wfLoad (c : Int)
  | wfWait (c cur : Int)
  -- CompletionEvent::completed(), reset()
  | cLoad
  | rsStore
  -- Latch::count_down(n), try_wait(), arrive_and_wait()
  | cdSub (n : Int)
  | twLoad
  | awSub
  deriving Repr, DecidableEq

def op : L → Option AOp
  | .idle => none
  | .done _ => none
  | .ntStore c => some (.store 0 c)
  | .ntWake => some (.fwake 0 intMax)
  | .wLoad _ => some (.load 0)
  | .wWait _ cur => some (.fwait 0 cur false)
  | .wfLoad0 _ _ => some (.load 0)
  | .wfLoad _ => some (.load 0)
  | .wfWait _ cur => some (.fwait 0 cur true)
  | .cLoad => some (.load 0)
  | .rsStore => some (.store 0 0)
  | .cdSub n => some (.fsub 0 n)
  | .twLoad => some (.load 0)
  | .awSub => some (.fsub 0 1)

def cont : L → Int → L
  | .idle, _ => .idle
  | .done r, _ => .done r
  | .ntStore _, _ => .ntWake
  | .ntWake, _ => .done 0
  | .wLoad c, r => if r = c then .done 0 else .wWait c r
  | .wWait c _, _ => .wLoad c
  | .wfLoad0 c relPos, r => if r = c then .done 1 else if relPos then .wfLoad c else .done 0
  | .wfLoad c, r => if r = c then .done 1 else .wfWait c r
  | .wfWait c _, r => if r = rTimedOut then .done 0 else .wfLoad c
  | .cLoad, r => .done (if r ≠ 0 then 1 else 0)
  | .rsStore, _ => .done 0
  -- latch.h: `if (fetch_sub(n) == n) notify(0)`
  | .cdSub n, r => if r = n then .ntStore 0 else .done 0
  | .twLoad, r => .done (if r = 0 then 1 else 0)
  | .awSub, r => if r > 1 then .wLoad 0 else .ntStore 0

/-- which calls a client may start from an idle/done local state -/
def isEntry : L → Bool
  | .ntStore _ | .wLoad _ | .wfLoad0 _ _ | .cLoad | .rsStore | .cdSub _ | .twLoad | .awSub => true
  | _ => false

def proto : Proto :=
  { L := L, op := op, cont := cont,
    entry := fun l l' => (match l with | .idle => true | .done _ => true | _ => false) && isEntry l' }

def idleOrDone : L → Bool
  | .idle => true
  | .done _ => true
  | _ => false

/-- Latch usage only: count_down(n ≥ 1), try_wait, wait, arrive_and_wait -/
def isLatchEntry : L → Bool
  | .cdSub n => decide (1 ≤ n)
  | .twLoad | .awSub => true
  | .wLoad c => decide (c = 0)
  | _ => false

def latchProto : Proto :=
  { L := L, op := op, cont := cont, entry := fun l l' => idleOrDone l && isLatchEntry l' }

/-- CompletionEvent usage without reset(): notify, wait, waitFor/waitUntil, completed -/
def isEventEntry : L → Bool
  | .ntStore c | .wLoad c | .wfLoad0 c _ => decide (c = 1)
  | .cLoad => true
  | _ => false

def eventProto : Proto :=
  { L := L, op := op, cont := cont, entry := fun l l' => idleOrDone l && isEventEntry l' }

/-- the code before the repair of `Latch::count_down` (`fetch_sub(n) == 1`), kept to state the
witness of the defect -/
def contOld : L → Int → L
  | .cdSub _, r => if r = 1 then .ntStore 0 else .done 0
  | l, r => cont l r

def latchProtoOld : Proto :=
  { L := L, op := op, cont := contOld, entry := fun l l' => idleOrDone l && isLatchEntry l' }

def binding : Trace.Binding proto :=
  { fieldOf := fun s => if s = "status" then some 0 else none
    bits := fun _ => 32
    mkCall := fun name args _ =>
      match name, args with
      | "notify", [] => some (.ntStore 1)
      | "wait", [] => some (.wLoad 1)
      | "waitFor", [relPos] => some (.wfLoad0 1 (relPos > 0))
      | "completed", [] => some .cLoad
      | "reset", [] => some .rsStore
      | "count_down", [n] => some (.cdSub n)
      | "try_wait", [] => some .twLoad
      | "latch_wait", [] => some (.wLoad 0)
      | "arrive_and_wait", [] => some .awSub
      | _, _ => none
    retOf := fun l => match l with
      | .done r => some [r]
      | _ => none
    -- declared orders of completion_event_impl.h / latch.h
    reqOrder := fun l => match l with
      | .ntStore _ => 3 | .wLoad _ => 2 | .wfLoad0 _ _ => 2 | .wfLoad _ => 2 | .cLoad => 2 | .rsStore => 3
      | .cdSub _ => 4 | .twLoad => 2 | .awSub => 4
      | _ => 0 }

def init (v : Int) : State proto := initState proto L.idle (fun _ => v)

end Dispenso.Event
