import DispensoVerif.Model.Bits
/-
Model of `dispenso::OnceFunction` (dispenso/once_function.h, detail/once_callable_impl.h) — C39.
Storage decision for a callable of `size` bytes and alignment `align`:
  inline iff size ≤ 56 ∧ align ≤ 64; otherwise a small-buffer block of
  `kAllocSize = nextPow2(max(size, align))` bytes (blocks above 256 bytes come from alignedMalloc).
State machine: a OnceFunction object is empty, or holds a callable (by id) until it is invoked,
cleaned up, or moved from (move = byte copy; the source must not be used again).
`called`/`destroyed`/`blocks` are ledgers of the callable invocations, destructor calls and
spill blocks, exactly where the code performs them.
Core Lean only.
-/
namespace Dispenso.OnceFn

def kInlineSize : Nat := 56

inductive Storage where
  | inline
  | spill (allocSize : Nat)
  deriving Repr, DecidableEq

def plan (size align : Nat) : Storage :=
  if size ≤ kInlineSize ∧ align ≤ 64 then .inline
  else .spill (Bits.nextPow2 (BitVec.ofNat 64 (max size align))).toNat

/-- small_buffer_allocator.h: getOrdinal(blockSize) = max(0, log2const(blockSize) - 2) -/
def getOrdinal (blockSize : Nat) : Nat :=
  (Bits.log2const64 (BitVec.ofNat 64 blockSize)).toNat - 2

structure Fn where
  callable : Nat            -- id of the stored callable
  storage : Storage
  deriving Repr, DecidableEq

structure St where
  objs : List (Nat × Option Fn)        -- OnceFunction objects: id ↦ contents (none = empty / consumed / moved-from)
  called : List (Nat × Nat)            -- callable id ↦ number of invocations
  destroyed : List (Nat × Nat)         -- callable id ↦ number of destructor calls of the stored copy
  blocks : Int                         -- spill blocks allocated and not yet returned
  nextObj : Nat
  nextCallable : Nat
  deriving Repr

def St.init : St := { objs := [], called := [], destroyed := [], blocks := 0, nextObj := 0, nextCallable := 0 }

inductive Op where
  | create (size align : Nat)          -- OnceFunction(F&&)
  | moveCtor (src : Nat)               -- OnceFunction(OnceFunction&&)
  | mkEmpty                            -- OnceFunction()
  | moveAssign (dst src : Nat)         -- dst = std::move(src); dst must be empty (documented)
  | invoke (o : Nat)                   -- operator()
  | cleanup (o : Nat)                  -- cleanupNotRun()
  | drop (o : Nat)                     -- the (trivial) destructor of an empty / consumed object
  deriving Repr

def get (s : St) (o : Nat) : Option (Option Fn) := (s.objs.find? (·.1 = o)).map (·.2)
def put (s : St) (o : Nat) (c : Option Fn) : St :=
  { s with objs := s.objs.map fun p => if p.1 = o then (p.1, c) else p }
def bump (l : List (Nat × Nat)) (k : Nat) : List (Nat × Nat) :=
  if l.any (·.1 = k) then l.map fun p => if p.1 = k then (p.1, p.2 + 1) else p else l ++ [(k, 1)]
def count (l : List (Nat × Nat)) (k : Nat) : Nat := ((l.find? (·.1 = k)).map (·.2)).getD 0

/-- output: `none` = rejected (contract violation: unknown object, use of an empty/consumed object,
    assignment over a live one); otherwise (inline flag, allocSize, times called, times destroyed, blocks) -/
def step (s : St) : Op → St × Option (Nat × Nat × Nat × Nat × Int)
  | .create size align =>
    let st := plan size align
    let f : Fn := { callable := s.nextCallable, storage := st }
    let db : Int := match st with | .inline => 0 | .spill _ => 1
    let s' := { s with objs := s.objs ++ [(s.nextObj, some f)], nextObj := s.nextObj + 1,
                       nextCallable := s.nextCallable + 1, blocks := s.blocks + db }
    (s', some (match st with | .inline => 1 | .spill _ => 0, match st with | .inline => 0 | .spill a => a, 0, 0, s'.blocks))
  | .mkEmpty =>
    let s' := { s with objs := s.objs ++ [(s.nextObj, none)], nextObj := s.nextObj + 1 }
    (s', some (0, 0, 0, 0, s'.blocks))
  | .moveCtor src =>
    match get s src with
    | some (some f) =>
      let s1 := put s src none
      let s' := { s1 with objs := s1.objs ++ [(s1.nextObj, some f)], nextObj := s1.nextObj + 1 }
      (s', some (0, 0, count s'.called f.callable, count s'.destroyed f.callable, s'.blocks))
    | _ => (s, none)
  | .moveAssign dst src =>
    match get s dst, get s src with
    | some none, some (some f) =>
      if dst = src then (s, none) else
      let s' := put (put s src none) dst (some f)
      (s', some (0, 0, count s'.called f.callable, count s'.destroyed f.callable, s'.blocks))
    | _, _ => (s, none)
  | .invoke o =>
    match get s o with
    | some (some f) =>
      let db : Int := match f.storage with | .inline => 0 | .spill _ => -1
      let s1 := put s o none
      let s' := { s1 with called := bump s1.called f.callable, destroyed := bump s1.destroyed f.callable,
                          blocks := s1.blocks + db }
      (s', some (0, 0, count s'.called f.callable, count s'.destroyed f.callable, s'.blocks))
    | _ => (s, none)
  | .cleanup o =>
    match get s o with
    | some (some f) =>
      let db : Int := match f.storage with | .inline => 0 | .spill _ => -1
      let s1 := put s o none
      let s' := { s1 with destroyed := bump s1.destroyed f.callable, blocks := s1.blocks + db }
      (s', some (0, 0, count s'.called f.callable, count s'.destroyed f.callable, s'.blocks))
    | _ => (s, none)
  | .drop o =>
    match get s o with
    | some none => ({ s with objs := s.objs.filter (·.1 ≠ o) }, some (0, 0, 0, 0, s.blocks))
    | _ => (s, none)

def runOps (s : St) : List Op → St
  | [] => s
  | o :: os => runOps (step s o).1 os

end Dispenso.OnceFn
