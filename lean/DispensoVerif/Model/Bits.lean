/-
Model of the bit-math helpers (C44):
  dispenso/detail/math.h   nextPow2, log2const (64 and 32 bit), log2 (bsr), countTrailingZeros, countSetBits
  dispenso/platform.h      alignToCacheLine, alignedMalloc address arithmetic
`uint64_t` is `BitVec 64`, `uint32_t` is `BitVec 32`; every operation is the C++ one (wrapping).
Core Lean only (linked into dvdriver).
-/
namespace Dispenso.Bits

/-- math.h: constexpr uint64_t nextPow2(uint64_t v) -/
def nextPow2 (v : BitVec 64) : BitVec 64 :=
  let v := v - 1
  let v := v ||| (v >>> 1)
  let v := v ||| (v >>> 2)
  let v := v ||| (v >>> 4)
  let v := v ||| (v >>> 8)
  let v := v ||| (v >>> 16)
  let v := v ||| (v >>> 32)
  v + 1

/-- one iteration of the log2const loop: `if (v & b) { v >>= S; r |= S; }` -/
def log2Step64 (b : BitVec 64) (S : Nat) (st : BitVec 64 × BitVec 32) : BitVec 64 × BitVec 32 :=
  if st.1 &&& b ≠ 0 then (st.1 >>> S, st.2 ||| BitVec.ofNat 32 S) else st

/-- math.h: constexpr uint32_t log2const(uint64_t v); loop `for (i = 6; i--;)` unrolled, i = 5..0 -/
def log2const64 (v : BitVec 64) : BitVec 32 :=
  let st : BitVec 64 × BitVec 32 := (v, 0)
  let st := log2Step64 0xFFFFFFFF00000000#64 32 st
  let st := log2Step64 0xFFFF0000#64 16 st
  let st := log2Step64 0xFF00#64 8 st
  let st := log2Step64 0xF0#64 4 st
  let st := log2Step64 0xC#64 2 st
  let st := log2Step64 0x2#64 1 st
  st.2

def log2Step32 (b : BitVec 32) (S : Nat) (st : BitVec 32 × BitVec 32) : BitVec 32 × BitVec 32 :=
  if st.1 &&& b ≠ 0 then (st.1 >>> S, st.2 ||| BitVec.ofNat 32 S) else st

/-- math.h: constexpr uint32_t log2const(uint32_t v) -/
def log2const32 (v : BitVec 32) : BitVec 32 :=
  let st : BitVec 32 × BitVec 32 := (v, 0)
  let st := log2Step32 0xFFFF0000#32 16 st
  let st := log2Step32 0xFF00#32 8 st
  let st := log2Step32 0xF0#32 4 st
  let st := log2Step32 0xC#32 2 st
  let st := log2Step32 0x2#32 1 st
  st.2

/-- specification used for the intrinsic-based functions (bsr / ctz / popcount), which cannot be
modelled from source: mathematical definitions. The tie compares the compiled functions with these. -/
def log2Spec (v : Nat) : Nat := Nat.log2 v

def ctzSpec : Nat → Nat → Nat
  | 0, _ => 0
  | fuel + 1, v => if v % 2 = 1 then 0 else 1 + ctzSpec fuel (v / 2)

def popcountSpec : Nat → Nat → Nat
  | 0, _ => 0
  | fuel + 1, v => v % 2 + popcountSpec fuel (v / 2)

def kCacheLineSize : Nat := 64

/-- platform.h: alignToCacheLine(uintptr_t val): val += kMask; val &= ~kMask -/
def alignToCacheLine (val : BitVec 64) : BitVec 64 :=
  let kMask : BitVec 64 := BitVec.ofNat 64 (kCacheLineSize - 1)
  (val + kMask) &&& ~~~kMask

/-- platform.h: alignedMalloc address arithmetic. `base` is what malloc returned, `alignment` the
request. Returns (aligned address handed out, address of the recovery word). -/
def alignedMallocAddr (base alignment : BitVec 64) : BitVec 64 × BitVec 64 :=
  let alignment := if alignment < 8 then 8 else alignment   -- std::max(alignment, sizeof(uintptr_t))
  let mask := alignment - 1
  let b := (base + alignment) &&& ~~~mask
  (b, b - 8)

end Dispenso.Bits
