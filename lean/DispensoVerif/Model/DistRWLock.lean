import DispensoVerif.Core.Trace
/-
Model of `dispenso::detail::DistributedRWLockImpl<N>` (dispenso/detail/distributed_rw_lock_impl.h)
— C23. Field i (0 ≤ i < N) is the lock word of slot i (an `RWLockImpl`, see Model/RWLock.lean for
the word layout: `W` = writer bit, low bits = reader count). Readers use one slot
(`index & (N-1)`); `lock()` sets every writer bit in slot order and then waits for every slot to
drain; `try_lock()` takes the bits without spinning and rolls back the ones it took on failure.
One model action per atomic / futex operation. Core Lean only.
-/
namespace Dispenso.DistRWLock
open Dispenso.Conc

def W : Int := 2147483648
def R : Int := 2147483647
def intMax : Nat := 2147483647
def hasBit (v : Int) : Bool := decide (W ≤ v)

inductive Hold where
  | none
  | read (f : Nat)
  | write
  deriving Repr, DecidableEq

inductive L where
  | idle
  | done (ret : Int) (h : Hold)
  -- lock(): phase 1 setWriteBit(slot i) for i = 0..N-1, phase 2 wait(slot i) for i = 0..N-1
  | lkOr (i : Nat)
  | lkLoad (i : Nat)
  | lkWait (i : Nat) (cur : Int)
  -- try_lock(): tryWriteBit(slot i); on failure unlock slots j < i
  | tlOr (i : Nat)
  | tlRollback (j i : Nat)
  -- unlock(): clear every bit in slot order
  | ulAnd (i : Nat)
  -- readers on slot f
  | lsAdd (f : Nat)
  | lsRelease (f : Nat)
  | lsNotify (f : Nat)
  | lsSpin (f : Nat)
  | tsAdd (f : Nat)
  | tsRelease (f : Nat)
  | tsNotify (f : Nat)
  | usSub (f : Nat)
  | usNotify (f : Nat)
  deriving Repr, DecidableEq

def op : L → Option AOp
  | .idle => none
  | .done _ _ => none
  | .lkOr i => some (.for_ i W)
  | .lkLoad i => some (.load i)
  | .lkWait i cur => some (.fwait i cur false)
  | .tlOr i => some (.for_ i W)
  | .tlRollback j _ => some (.fand j R)
  | .ulAnd i => some (.fand i R)
  | .lsAdd f => some (.fadd f 1)
  | .lsRelease f => some (.fsub f 1)
  | .lsNotify f => some (.fwake f intMax)
  | .lsSpin f => some (.load f)
  | .tsAdd f => some (.fadd f 1)
  | .tsRelease f => some (.fsub f 1)
  | .tsNotify f => some (.fwake f intMax)
  | .usSub f => some (.fsub f 1)
  | .usNotify f => some (.fwake f intMax)

def cont (N : Nat) : L → Int → L
  | .idle, _ => .idle
  | .done r h, _ => .done r h
  | .lkOr i, r => if hasBit r then .lkOr i else if i + 1 < N then .lkOr (i + 1) else .lkLoad 0
  | .lkLoad i, r =>
    if r = W then (if i + 1 < N then .lkLoad (i + 1) else .done 1 .write) else .lkWait i r
  | .lkWait i _, _ => .lkLoad i
  | .tlOr i, r =>
    if hasBit r then (if i = 0 then .done 0 .none else .tlRollback 0 i)
    else if i + 1 < N then .tlOr (i + 1) else .lkLoad 0
  | .tlRollback j i, _ => if j + 1 < i then .tlRollback (j + 1) i else .done 0 .none
  | .ulAnd i, _ => if i + 1 < N then .ulAnd (i + 1) else .done 0 .none
  | .lsAdd f, r => if hasBit r then .lsRelease f else .done 1 (.read f)
  | .lsRelease f, r => if r = W + 1 then .lsNotify f else .lsSpin f
  | .lsNotify f, _ => .lsSpin f
  | .lsSpin f, r => if hasBit r then .lsSpin f else .lsAdd f
  | .tsAdd f, r => if hasBit r then .tsRelease f else .done 1 (.read f)
  | .tsRelease f, r => if r = W + 1 then .tsNotify f else .done 0 .none
  | .tsNotify _, _ => .done 0 .none
  | .usSub f, r => if r = W + 1 then .usNotify f else .done 0 .none
  | .usNotify _, _ => .done 0 .none

def holdOf : L → Hold
  | .done _ h => h
  | _ => .none

def entry (N : Nat) (l l' : L) : Bool :=
  let free := match l with
    | .idle => true
    | .done _ .none => true
    | _ => false
  match l' with
  | .lkOr 0 | .tlOr 0 => free
  | .lsAdd f | .tsAdd f => free && decide (f < N)
  | .ulAnd 0 => decide (holdOf l = .write)
  | .usSub f => decide (holdOf l = .read f)
  | _ => false

def proto (N : Nat) : Proto := { L := L, op := op, cont := cont N, entry := entry N }

def parseSlot (s : String) : Option Fld :=
  if s.startsWith "slot" then (s.drop 4).toNat? else none

def binding (N : Nat) : Trace.Binding (proto N) :=
  { fieldOf := parseSlot
    bits := fun _ => 32
    mkCall := fun name args _ =>
      match name, args with
      | "lock", [] => some (.lkOr 0)
      | "try_lock", [] => some (.tlOr 0)
      | "unlock", [] => some (.ulAnd 0)
      | "lock_shared", [i] => some (.lsAdd (i.toNat % N))
      | "try_lock_shared", [i] => some (.tsAdd (i.toNat % N))
      | "unlock_shared", [i] => some (.usSub (i.toNat % N))
      | _, _ => none
    retOf := fun l => match l with
      | .done r _ => some [r]
      | _ => none
    reqOrder := fun l => match l with
      | .lkOr _ | .tlOr _ | .tlRollback _ _ | .ulAnd _ | .lsAdd _ | .lsRelease _ | .tsAdd _ | .tsRelease _ | .usSub _ => 4
      | .lkLoad _ | .lsSpin _ => 2
      | _ => 0 }

def init (N : Nat) : State (proto N) := initState (proto N) L.idle (fun _ => 0)

end Dispenso.DistRWLock
