/-
Model of the buffer-pointer tables of `dispenso::ConcurrentObjectArena` (concurrent_object_arena.h,
`allocateBuffer`, `operator[]`, `~ConcurrentObjectArena`) — C37, "references to existing elements stay
valid across growth" for the lock-free readers.

`operator[]` is two steps: an atomic load of `buffers_` (the table pointer) and a plain read of the
table entry.  A reader may be suspended between the two for any number of `allocateBuffer` calls of
other threads.  The model gives every table an identity; a reader snapshot records the table it
loaded and how many entries were published in it.  `allocateBuffer` either fills the next entry of
the current table or allocates a table of twice the size, copies the entries and *retires* the old
table (`deleteLater_`); tables are freed only by the destructor, whose contract is that no other
thread uses the arena (no snapshot is outstanding).  Core Lean only.
-/
namespace Dispenso.ArenaTables

structure St where
  tables : Nat := 0              -- tables allocated so far; the current table has id `tables - 1`
  size : Nat := 0                -- buffersSize_: capacity of the current table
  used : Nat := 0                -- buffersPos_: entries published in the current table
  retired : List Nat := []       -- deleteLater_: ids of the tables replaced so far
  freed : List Nat := []         -- ids of tables handed back to the allocator
  snaps : List (Nat × Nat × Nat) := []   -- reader ↦ (table id it loaded, entries published then)
  alive : Bool := true
  deriving Repr, DecidableEq

inductive Op where
  | alloc                        -- allocateBuffer()
  | load (r : Nat)               -- first half of operator[] / getBuffer: `buffers_.load(acquire)`
  | index (r i : Nat)            -- second half: plain read of entry `i` of the table loaded before
  | destroy                      -- ~ConcurrentObjectArena()
  deriving Repr, DecidableEq

inductive Out where
  | ok                           -- the step is allowed and touches live memory only
  | table (size used retired : Nat)   -- reply of alloc: table capacity, entries used, deleteLater_.size()
  | uaf                          -- a freed table was indexed
  | rejected                     -- outside the contract (no snapshot, entry not published, arena dead)
  deriving Repr, DecidableEq

def snapOf (s : St) (r : Nat) : Option (Nat × Nat) := (s.snaps.find? (·.1 = r)).map (·.2)

def step (s : St) : Op → St × Out
  | .alloc =>
    if !s.alive then (s, .rejected) else
    if s.used < s.size then
      let s' := { s with used := s.used + 1 }
      (s', .table s'.size s'.used s'.retired.length)
    else
      let s' := { s with
        size := if s.size = 0 then 2 else s.size * 2
        used := s.used + 1
        tables := s.tables + 1
        retired := if s.tables = 0 then s.retired else (s.tables - 1) :: s.retired }
      (s', .table s'.size s'.used s'.retired.length)
  | .load r =>
    if !s.alive || s.tables = 0 then (s, .rejected) else
    ({ s with snaps := (r, s.tables - 1, s.used) :: s.snaps.filter (·.1 ≠ r) }, .ok)
  | .index r i =>
    match snapOf s r with
    | none => (s, .rejected)
    | some (id, n) =>
      if i < n then
        ({ s with snaps := s.snaps.filter (·.1 ≠ r) }, if id ∈ s.freed then .uaf else .ok)
      else (s, .rejected)
  | .destroy =>
    -- contract: nobody else uses the arena while it is destroyed
    if !s.alive || !s.snaps.isEmpty then (s, .rejected) else
    ({ s with alive := false
              freed := (if s.tables = 0 then [] else [s.tables - 1]) ++ s.retired ++ s.freed
              retired := [] }, .ok)

def run (s : St) : List Op → St × List Out
  | [] => (s, [])
  | o :: os =>
    let (s1, out) := step s o
    let (s2, outs) := run s1 os
    (s2, out :: outs)

end Dispenso.ArenaTables
