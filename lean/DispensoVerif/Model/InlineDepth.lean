/-
Inline-execution depth of one thread (C46).  dispenso runs a scheduled task on the scheduling thread
("inline") on several paths; each guarded path checks `PerPoolPerThreadInfo::canInlineSchedule()`
(`inlineDepth() < kMaxInlineDepth`) and holds an `InlineDepthGuard` (`++inlineDepth()` … `--`) while
the task runs (dispenso/detail/per_thread_info.h; ThreadPool::schedule, TaskSet::schedule,
ConcurrentTaskSet::schedule(Placed), TaskSetBase::invokeInline, pipeline and graph hand-offs).

The model is the per-thread stack of running task bodies as seen in an event trace: a body is either
run inline by a guarded decision (`guarded`), run inline by a zero-thread pool (`unguarded`: the
`numThreads == 0` path of forceEnqueue has no bound, recorded as a known finding), or run from a queue
by a worker / waiter (`queued`).  `step` rejects a guarded inline decision taken at depth ≥ `K`.
Core Lean only.
-/
namespace Dispenso.InlineDepth

def K : Nat := 32   -- detail::kMaxInlineDepth

inductive How where
  | guarded | unguarded | queued
  deriving DecidableEq, Repr

inductive Ev where
  | decideGuarded      -- pool.inline / ts.inline hook: the code decided to run the next body inline, under a guard
  | decideUnguarded    -- pool.inline0 hook
  | begin_             -- a task body starts on this thread
  | end_               -- the innermost running body ends
  | skip               -- the package wrapper skipped the body of a cancelled set: a pending decision lapses
  deriving DecidableEq, Repr

structure Thr where
  stack : List How := []        -- innermost first
  pending : Option How := none  -- an inline decision whose body has not begun yet
  deriving Repr

def depth (l : List How) : Nat := (l.filter (· = .guarded)).length

def step (s : Thr) : Ev → Option Thr
  | .decideGuarded =>
    if s.pending = none ∧ depth s.stack < K then some { s with pending := some .guarded } else none
  | .decideUnguarded =>
    if s.pending = none then some { s with pending := some .unguarded } else none
  | .begin_ =>
    match s.pending with
    | some h => some { stack := h :: s.stack, pending := none }
    | none => some { stack := .queued :: s.stack, pending := none }
  | .skip => some { s with pending := none }
  | .end_ =>
    match s.stack with
    | _ :: rest => if s.pending = none then some { s with stack := rest } else none
    | [] => none

def run (s : Thr) : List Ev → Option Thr
  | [] => some s
  | e :: rest => match step s e with
    | some s' => run s' rest
    | none => none

end Dispenso.InlineDepth
