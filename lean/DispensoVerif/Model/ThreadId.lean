import DispensoVerif.Core.Trace
/-
Model of `dispenso::threadId()` (dispenso/thread_id.cpp) — C45.
Field 0 is the global counter `nextThread`; the thread-local cache `currentThread` (sentinel =
"invalid") is part of the thread's local state and survives between calls.
Core Lean only.
-/
namespace Dispenso.ThreadId
open Dispenso.Conc

inductive L where
  | idle (cache : Option Int)            -- between calls; `none` = kInvalidThread
  | fetch                                -- cache invalid: nextThread.fetch_add(1)
  | hit (v : Int)                        -- cache valid: return it (no shared access)
  deriving Repr, DecidableEq

def op : L → Option AOp
  | .idle _ => none
  | .fetch => some (.fadd 0 1)
  | .hit _ => some .silent

def cont : L → Int → L
  | .idle c, _ => .idle c
  | .fetch, r => .idle (some r)
  | .hit v, _ => .idle (some v)

/-- a call of threadId() from a thread whose cache is `c` -/
def entry (l l' : L) : Bool :=
  match l, l' with
  | .idle none, .fetch => true
  | .idle (some v), .hit w => decide (v = w)
  | _, _ => false

def proto : Proto := { L := L, op := op, cont := cont, entry := entry }

def cacheOf : L → Option Int
  | .idle c => c
  | .fetch => none
  | .hit v => some v

def binding : Trace.Binding proto :=
  { fieldOf := fun s => if s = "next" then some 0 else none
    bits := fun _ => 64
    mkCall := fun name args l =>
      match name, args with
      | "threadId", [] => match l with
        | .idle none => some .fetch
        | .idle (some v) => some (.hit v)
        | _ => none
      | _, _ => none
    retOf := fun l => match l with
      | .idle (some v) => some [v]
      | _ => none }

def init (start : Int) : State proto := initState proto (L.idle none) (fun _ => start)

end Dispenso.ThreadId
