import DispensoVerif.Model.ConVec
/-
Capacity / allocation model of `dispenso::ConcurrentVector<T, Traits>` used sequentially
(dispenso/concurrent_vector.h, dispenso/detail/concurrent_vector_impl.h) — the white-box layer
under C32 and the sequential base of C33.

Per vector: `firstBucketShift_`, `size_`, which `buffers_[b]` are non-null, the `shouldDealloc_`
flags, and one ghost bit per bucket: "this pointer is the start of a live malloc block".  Every
operation is written as the allocation work the C++ performs:
 * `allocSingle`  = `allocAsNecessaryImpl(binfo, …)`   (emplace_back / insertPartial(pos)),
 * `allocRange`   = `allocAsNecessaryImpl(binfo, rangeLen, bend, …)` with the counting pass, the single
   `cv::alloc`, the `tryAssignBuffer` pass (load, then store) and the final wait loops — a wait on
   a bucket that is still null is a hang (`none`) in sequential use,
 * `reserve`, `shrink_to_fit`, `clear`, the reserving constructor, move / swap of the buffer table.
The realloc strategy and the smallest first-bucket shift (`log2 (kDefaultCapacity / 2)`) are
parameters, `mb` is `kMaxBuffers`.  Counters: `nalloc`/`nfree` = calls of `cv::alloc`/`cv::dealloc`,
`elems` = element slots (and nothing else) requested from `cv::alloc<T>`; `leaked` / `badFree`
count blocks whose start pointer is dropped without a free / frees of a pointer that is not a block
start (both are proved to stay 0).  Core Lean only.
-/
namespace Dispenso.ConVecAlloc
open Dispenso.ConVec

inductive Strat where
  | full      -- kFullBufferAhead
  | half      -- kHalfBufferAhead
  | asNeeded  -- kAsNeeded
  deriving Repr, DecidableEq

/-- concurrent_vector_impl.h: allocCheckIndex(bucketCapacity) -/
def allocCheckIndex : Strat → Nat → Nat
  | .full, _ => 0
  | .half, c => c / 2
  | .asNeeded, c => c - 1

structure VA where
  shift : Nat
  size : Nat
  bufs : Nat → Bool
  flags : Nat → Bool
  starts : Nat → Bool
  nalloc : Nat
  nfree : Nat
  elems : Nat
  leaked : Nat
  badFree : Nat

def setB (f : Nat → Bool) (b : Nat) (x : Bool) : Nat → Bool := fun k => if k = b then x else f k

/-- `ceil(log2 n)`: `detail::log2(detail::nextPow2(n))` for `n ≥ 1` -/
def clog2 (n : Nat) : Nat := if n ≤ 1 then 0 else Nat.log2 (n - 1) + 1

/-- state right after the reserving constructor (also the state a moved-from vector is left in):
    one block holding buckets 0 and 1; `table`: the buffer table is a separate heap block -/
def VA.fresh (shift : Nat) (table : Bool) : VA :=
  { shift := shift, size := 0, bufs := fun b => decide (b < 2), flags := fun _ => false,
    starts := fun _ => false, nalloc := 1 + (if table then 1 else 0), nfree := 0,
    elems := 2 * 2 ^ shift, leaked := 0, badFree := 0 }

/-- `ConcurrentVector(startCapacity, ReserveTag)` -/
def ctorShift (minShift n : Nat) : Nat := clog2 (max n (2 ^ minShift))

/-- `allocAsNecessaryImpl(binfo, cacheUpdate)`; `none`: the final wait loop never ends -/
def allocSingle (st : Strat) (v : VA) (bi : BucketInfo) : Option VA :=
  let v1 :=
    if bi.bucketIndex = allocCheckIndex st bi.bucketCapacity ∧ v.bufs (bi.bucket + 1) = false then
      { v with bufs := setB v.bufs (bi.bucket + 1) true, flags := setB v.flags (bi.bucket + 1) true,
               starts := setB v.starts (bi.bucket + 1) true, nalloc := v.nalloc + 1,
               elems := v.elems + bi.bucketCapacity * 2 }
    else v
  if v1.bufs bi.bucket then some v1 else none

/-- the second pass of the range variant: `tryAssignBuffer` for every visited bucket in order;
    `have`: a block was allocated (`sizeToAlloc ≠ 0`); the Boolean is `firstAccounted` -/
def assignAll (have_ : Bool) : VA → List (Nat × Nat) → Bool → VA × Bool
  | v, [], fa => (v, fa)
  | v, (b, _) :: r, fa =>
    if v.bufs b then assignAll have_ v r fa
    else assignAll have_
      { v with bufs := setB v.bufs b true, flags := setB v.flags b (!fa),
               starts := setB v.starts b (!fa && have_) } r true

/-- buckets (with the capacity the code computes for them) visited by both passes -/
def rangeTargets (st : Strat) (bi : BucketInfo) (rangeLen : Nat) (bend : BucketInfo) : List (Nat × Nat) :=
  let chk := allocCheckIndex st bi.bucketCapacity
  let cur : Bool := decide (bi.bucketIndex ≤ chk) && decide (chk < bi.bucketIndex + rangeLen)
  if cur || decide (bi.bucket < bend.bucket) then
    let nc := if cur then 0 else 1
    let cap0 := bi.bucketCapacity * 2 ^ ((if bi.bucket = 0 then 0 else 1) + nc)
    let b0 := bi.bucket + 1 + nc
    let n := bend.bucket + 1 - b0
    (List.range n).map (fun i => (b0 + i, cap0 * 2 ^ i)) ++
      (if allocCheckIndex st bend.bucketCapacity < bend.bucketIndex then [(b0 + n, cap0 * 2 ^ n)] else [])
  else []

/-- `allocAsNecessaryImpl(binfo, rangeLen, bend, cacheUpdate)`; `none`: a wait loop never ends -/
def allocRange (st : Strat) (v : VA) (bi : BucketInfo) (rangeLen : Nat) (bend : BucketInfo) : Option VA :=
  let targets := rangeTargets st bi rangeLen bend
  let sizeToAlloc := ((targets.filter fun p => !v.bufs p.1).map (·.2)).sum
  let v2 := if sizeToAlloc ≠ 0 then { v with nalloc := v.nalloc + 1, elems := v.elems + sizeToAlloc } else v
  let (v3, fa) := assignAll (decide (sizeToAlloc ≠ 0)) v2 targets false
  let v1 := if sizeToAlloc ≠ 0 ∧ fa = false then { v3 with leaked := v3.leaked + 1 } else v3
  if (List.range (bend.bucket + 1 - bi.bucket)).all (fun i => v1.bufs (bi.bucket + i)) then some v1 else none

/-- `shrink_to_fit`'s loop from bucket `b` -/
def shrinkLoop : Nat → Nat → VA → VA
  | 0, _, v => v
  | fuel + 1, b, v =>
    if v.bufs b then
      let v1 :=
        if v.flags b then
          (if v.starts b then { v with nfree := v.nfree + 1 } else { v with badFree := v.badFree + 1 })
        else (if v.starts b then { v with leaked := v.leaked + 1 } else v)
      shrinkLoop fuel (b + 1) { v1 with bufs := setB v1.bufs b false, starts := setB v1.starts b false }
    else v

def shrinkToFit (mb : Nat) (v : VA) : VA :=
  let start := max 2 ((bucketAndSubIndex v.shift v.size).bucket + 2)
  shrinkLoop (mb - start) start v

def capLoop : Nat → Nat → (Nat → Bool) → Nat → Nat
  | 0, _, _, cap => cap
  | fuel + 1, b, bufs, cap => if bufs b then capLoop fuel (b + 1) bufs (cap * 2) else cap

/-- `capacity()` -/
def capacity (mb : Nat) (v : VA) : Nat := capLoop (mb - 2) 2 v.bufs (2 * 2 ^ v.shift)

/-- `emplace_back` / `push_back` / `insertPartial(pos)` -/
def pushOne (st : Strat) (v : VA) : Option VA :=
  (allocSingle st v (bucketAndSubIndex v.shift v.size)).map fun v' => { v' with size := v.size + 1 }

/-- `growByUninitialized(delta)` / `insertPartial(pos, len)` -/
def growRange (st : Strat) (v : VA) (n : Nat) : Option VA :=
  (allocRange st v (bucketAndSubIndex v.shift v.size) n (bucketAndSubIndex v.shift (v.size + n))).map
    fun v' => { v' with size := v.size + n }

/-- `reserve(capacity)` -/
def reserve (st : Strat) (v : VA) (n : Nat) : Option VA :=
  allocRange st v ⟨0, 0, 2 ^ v.shift⟩ n (bucketAndSubIndex v.shift n)

/-- `clear(); reserve(n); size_.store(n)` (assign, copy assignment) -/
def assignN (st : Strat) (v : VA) (n : Nat) : Option VA :=
  (reserve st { v with size := 0 } n).map fun v' => { v' with size := n }

inductive Res where
  | ok (v : VA)
  | hang
  | reject

def ofOpt : Option VA → Res
  | some v => .ok v
  | none => .hang

structure Cfg where
  strat : Strat
  minShift : Nat
  mb : Nat
  table : Bool

/-- the buffer table has `mb` entries: an operation that would use `buffers_[mb]` is outside the
    contract (the size exceeds `kMaxVectorSize`) and is rejected by the model -/
def bound (c : Cfg) : Res → Res
  | .ok v => if v.bufs c.mb then .reject else .ok v
  | r => r

/-- operations on one vector (`o` is resolved by the pool), before the bound check -/
def vaOp0 (c : Cfg) (v : VA) : Op → Res
  | .assign _ n _ => ofOpt (assignN c.strat v n)
  | .assignRange _ xs => ofOpt (assignN c.strat v xs.length)
  | .pushBack _ _ => ofOpt (pushOne c.strat v)
  | .growBy _ n => ofOpt (growRange c.strat v n)
  | .growByVal _ n _ => ofOpt (growRange c.strat v n)
  | .growByRange _ xs => ofOpt (growRange c.strat v xs.length)
  | .growToAtLeast _ n => if v.size < n then ofOpt (growRange c.strat v (n - v.size)) else if n = 0 then .reject else .ok v
  | .growToAtLeastVal _ n _ => if v.size < n then ofOpt (growRange c.strat v (n - v.size)) else if n = 0 then .reject else .ok v
  | .insert1 _ idx _ => if idx ≤ v.size then ofOpt (pushOne c.strat v) else .reject
  | .insertN _ idx n _ => if idx ≤ v.size then ofOpt (growRange c.strat v n) else .reject
  | .insertRange _ idx xs => if idx ≤ v.size then ofOpt (growRange c.strat v xs.length) else .reject
  | .erase1 _ idx => if idx < v.size then .ok { v with size := v.size - 1 } else if idx = v.size then .ok v else .reject
  | .eraseRange _ i j => if i ≤ j ∧ j ≤ v.size then .ok { v with size := v.size - (j - i) } else .reject
  | .resize _ n => if v.size < n then ofOpt (growRange c.strat v (n - v.size)) else .ok { v with size := n }
  | .resizeVal _ n _ => if v.size < n then ofOpt (growRange c.strat v (n - v.size)) else .ok { v with size := n }
  | .reserve _ n => ofOpt (reserve c.strat v n)
  | .popBack _ => if v.size = 0 then .reject else .ok { v with size := v.size - 1 }
  | .clear _ => .ok { v with size := 0 }
  | .shrinkToFit _ => .ok (shrinkToFit c.mb v)
  | .query _ => .ok v
  | _ => .reject

def vaOp (c : Cfg) (v : VA) (op : Op) : Res := bound c (vaOp0 c v op)

/-! ### the pool of vectors -/

structure St where
  vecs : List (Nat × VA)
  next : Nat
  /-- counters of the vectors destroyed so far -/
  gAlloc : Nat
  gFree : Nat
  gElems : Nat
  gLeaked : Nat
  gBadFree : Nat

def St.init : St := { vecs := [], next := 0, gAlloc := 0, gFree := 0, gElems := 0, gLeaked := 0, gBadFree := 0 }

def get (s : St) (o : Nat) : Option VA := (s.vecs.find? (·.1 = o)).map (·.2)
def put (s : St) (o : Nat) (v : VA) : St :=
  { s with vecs := s.vecs.map fun p => if p.1 = o then (p.1, v) else p }
def add (s : St) (v : VA) : St := { s with vecs := s.vecs ++ [(s.next, v)], next := s.next + 1 }

/-- the target vector of an operation (`none`: a constructor or a two-vector operation) -/
def target : Op → Option Nat
  | .assign o _ _ | .assignRange o _ | .pushBack o _ | .growBy o _ | .growByVal o _ _ | .growByRange o _
  | .growToAtLeast o _ | .growToAtLeastVal o _ _ | .insert1 o _ _ | .insertN o _ _ _ | .insertRange o _ _
  | .erase1 o _ | .eraseRange o _ _ | .resize o _ | .resizeVal o _ _ | .reserve o _ | .popBack o | .clear o
  | .shrinkToFit o | .query o => some o
  | _ => none

/-- a newly constructed vector holding `n` elements (all constructors but the move constructor) -/
def construct (c : Cfg) (n : Nat) : VA := { VA.fresh (ctorShift c.minShift n) c.table with size := n }

/-- copy assignment from a vector of `n` elements -/
def copyAssignVA (c : Cfg) (d : VA) (n : Nat) : Res := bound c (ofOpt (assignN c.strat d n))

/-- `~ConcurrentVector()`: clear, shrink_to_fit, free the first block (and the table) -/
def destroyVA (c : Cfg) (v : VA) : VA :=
  let v1 := shrinkToFit c.mb { v with size := 0 }
  { v1 with nfree := v1.nfree + 1 + (if c.table then 1 else 0), bufs := fun _ => false }

/-- result: new pool state; `some (some id)`: fine, the vector to observe; `some none`: fine, nothing
    to observe; `none`: rejected; hang is reported through the Boolean -/
def step (c : Cfg) (s : St) (op : Op) : St × Option (Option Nat) × Bool :=
  match target op with
  | some o =>
    match get s o with
    | none => (s, none, false)
    | some v =>
      match vaOp c v op with
      | .ok v' => (put s o v', some (some o), false)
      | .hang => (s, some (some o), true)
      | .reject => (s, none, false)
  | none =>
    match op with
    | .mk => (add s (construct c 0), some (some s.next), false)
    | .mkSize n => (add s (construct c n), some (some s.next), false)
    | .mkSizeVal n _ => (add s (construct c n), some (some s.next), false)
    | .mkRange xs => (add s (construct c xs.length), some (some s.next), false)
    | .copyCtor src =>
      match get s src with
      | some v => (add s (construct c v.size), some (some s.next), false)
      | none => (s, none, false)
    | .moveCtor src =>
      match get s src with
      | some v => (add (put s src (VA.fresh v.shift c.table)) v, some (some s.next), false)
      | none => (s, none, false)
    | .copyAssign dst src =>
      match get s dst, get s src with
      | some d, some v =>
        if dst = src then (s, some (some dst), false) else
        match copyAssignVA c d v.size with
        | .ok d' => (put s dst d', some (some dst), false)
        | .hang => (s, some (some dst), true)
        | .reject => (s, none, false)
      | _, _ => (s, none, false)
    | .moveAssign dst src =>
      match get s dst, get s src with
      | some d, some v =>
        if dst = src then (s, some (some dst), false) else
        (put (put s dst v) src { d with size := 0 }, some (some dst), false)
      | _, _ => (s, none, false)
    | .swap a b =>
      match get s a, get s b with
      | some va, some vb =>
        if a = b then (s, some (some a), false) else (put (put s a vb) b va, some (some a), false)
      | _, _ => (s, none, false)
    | .destroy o =>
      match get s o with
      | some v =>
        let v' := destroyVA c v
        ({ s with vecs := s.vecs.filter (·.1 ≠ o), gAlloc := s.gAlloc + v'.nalloc, gFree := s.gFree + v'.nfree,
                  gElems := s.gElems + v'.elems, gLeaked := s.gLeaked + v'.leaked, gBadFree := s.gBadFree + v'.badFree },
         some none, false)
      | none => (s, none, false)
    | .cmp a b =>
      match get s a, get s b with
      | some _, some _ => (s, some none, false)
      | _, _ => (s, none, false)
    | _ => (s, none, false)

def runOps (c : Cfg) (s : St) : List Op → St
  | [] => s
  | o :: os => runOps c (step c s o).1 os

/-! ### observation (what the white-box harness prints) -/

def mask (mb : Nat) (f : Nat → Bool) : Nat :=
  (List.range mb).foldl (fun acc b => if f b then acc + 2 ^ b else acc) 0

def totalAlloc (s : St) : Nat := s.gAlloc + (s.vecs.map fun p => p.2.nalloc).sum
def totalFree (s : St) : Nat := s.gFree + (s.vecs.map fun p => p.2.nfree).sum
def totalElems (s : St) : Nat := s.gElems + (s.vecs.map fun p => p.2.elems).sum
def totalLeaked (s : St) : Nat := s.gLeaked + (s.vecs.map fun p => p.2.leaked).sum
def totalBadFree (s : St) : Nat := s.gBadFree + (s.vecs.map fun p => p.2.badFree).sum

end Dispenso.ConVecAlloc
