import DispensoVerif.Core.Trace
/-
Model of the shared state of `dispenso::Future` (`detail::FutureImplBase<Result>`,
dispenso/detail/future_impl.h) and of the timed waits of the Linux `CompletionEventImpl`
(dispenso/detail/completion_event_impl.h) — C18, C20.  One model action per atomic operation /
futex call of the code, in program order, in the generic interleaving semantics `Core/Conc.lean`.

Fields
  0 `status_` (futex word): 0 kNotStarted, 1 kRunning, 2 kReady  (CompletionEvent: 0 / 1)
  1 `refCount_`
  2 the functor's invocation counter (the harness functor bumps an atomic counter first thing)
  3 the tag of the `Result` object placement-constructed in `resultBuf_`
      (0: not constructed, `val`: constructed by the functor, -3: destroyed by `dealloc()`)
  4 `*taskSetCounter_` (the task set's outstanding count), when the future belongs to a task set
  5 ghost: the `OnceFunction` made by `makeOnceFunction()` has not been invoked yet (1 / 0)
  6 plain: `exception_` is set (0 / 1)
  7 ghost: `dealloc()` has completed (0 / 1)
  8 the (virtual) clock in nanoseconds

A thread's local state is `⟨h, pc⟩`: the number of `Future` handles it owns and its control state.
The client contract (`entry`): `wait`/`get`/`wait_for`/`wait_until`/`is_ready`/copy need an owned
handle, destroying a handle gives it up; the scheduled closure (`run()`) is invoked by whoever
takes the ghost token of field 5 (at most once: `OnceFunction`, C39 / the pool, C01).
Core Lean only.
-/
namespace Dispenso.Future
open Dispenso.Conc

def intMax : Nat := 2147483647

structure Cfg where
  /-- the "completed" value of the status word: 2 (`kReady`) for a Future, 1 for a CompletionEvent -/
  c : Int
  /-- tag of the object the functor returns -/
  val : Int
  /-- the functor throws instead of returning -/
  throws : Bool
  /-- the future was created through a TaskSet / ConcurrentTaskSet (`taskSetCounter_ ≠ nullptr`) -/
  hasTsc : Bool
  /-- `allowInline_`: created with `std::launch::deferred` -/
  allowInline : Bool
  deriving Repr, DecidableEq

/-- who is executing the shared code paths, i.e. where to continue afterwards -/
inductive K where
  | closure                    -- the scheduled `OnceFunction`: `run()`
  | wait                       -- `Future::wait()`
  | get                        -- `Future::get()`
  | timed (rel lb : Int)       -- `wait_for(rel)`; `lb`: the call started at clock `lb - rel`
  | until (abs : Int)          -- `wait_until(abs)` before `Clock::now()` has been read
  | notify                     -- `CompletionEvent::notify()`
  deriving Repr, DecidableEq

inductive PC where
  | idle
  | done (r : Int)
  | tdone (r lb : Int)         -- a timed wait returned `r` (1 ready / 0 timeout); `lb`: see `K.timed`
  | wdone                      -- `wait()` returned
  | gdone (r : Int)            -- `get()` returned the object with tag `r` (-1: rethrew the exception)
  | bad                        -- the closure was invoked although its token is gone
  -- FutureImplBase::run()
  | rnTake
  | rnCas (k : K)              -- `status_.compare_exchange_weak(s = kNotStarted, kRunning)`
  | fnInc (k : K)              -- runFunc(): the functor starts (counter++)
  | fnStore (k : K)            --   `new (resultBuf_) Result(f())`
  | fnThrow (k : K)            --   `exception_ = std::current_exception()`
  | ntStore (k : K)            -- status_.notify(kReady): store
  | ntWake (k : K)             --   futex wake-all
  | tsSub (k : K)              -- `taskSetCounter_->fetch_sub(1)`
  -- decRefCountMaybeDestroy() / dealloc()
  | rcSub
  | dtExc
  | dtStore
  | dtFree
  -- waitCommon(allow)
  | wcLoad (k : K) (allow : Bool)
  -- CompletionEventImpl::wait(c)
  | evLoad (k : K)
  | evWait (k : K) (cur : Int)
  -- timed waits
  | tfClock (rel : Int) (fut : Bool)
  | wuLoad (abs : Int)
  | wuClock (abs : Int)
  | wfLoad0 (rel lb : Int)
  | wfLoad (rel lb : Int)
  | wfWait (rel lb cur : Int)
  -- get(): result()
  | gtExc
  | gtLoad
  -- handle copy, is_ready()/completed()
  | cpAdd
  | irLoad
  -- TaskSet::wait(): `while (count.load()) { …steal…; if (count.load()) yield(); }`
  | twLoad
  | twLoad2
  -- time passes
  | tick (n : Int)
  deriving Repr, DecidableEq

structure L where
  h : Nat
  pc : PC
  deriving Repr, DecidableEq

/-- continue after the status is known to be completed / after the functor has been run -/
def fin : K → PC
  | .closure => .rcSub
  | .wait => .wdone
  | .get => .gtExc
  | .timed _ lb => .tdone 1 lb
  | .until abs => .tdone 1 abs
  | .notify => .done 0

/-- the fast path did not apply: block -/
def slow : K → PC
  | .closure => .rcSub
  | .wait => .evLoad .wait
  | .get => .evLoad .get
  | .timed rel lb => .wfLoad0 rel lb
  | .until abs => .wuLoad abs
  | .notify => .done 0

def opPC (cfg : Cfg) : PC → Option AOp
  | .idle | .done _ | .tdone _ _ | .wdone | .gdone _ | .bad => none
  | .rnTake => some (.cas 5 1 0)
  | .rnCas _ => some (.cas 0 0 1)
  | .fnInc _ => some (.fadd 2 1)
  | .fnStore _ => some (.store 3 cfg.val)
  | .fnThrow _ => some (.store 6 1)
  | .ntStore _ => some (.store 0 cfg.c)
  | .ntWake _ => some (.fwake 0 intMax)
  | .tsSub _ => some (.fsub 4 1)
  | .rcSub => some (.fsub 1 1)
  | .dtExc => some (.load 6)
  | .dtStore => some (.store 3 (-3))
  | .dtFree => some (.store 7 1)
  | .wcLoad _ _ => some (.load 0)
  | .evLoad _ => some (.load 0)
  | .evWait _ cur => some (.fwait 0 cur false)
  | .tfClock _ _ => some (.load 8)
  | .wuLoad _ => some (.load 0)
  | .wuClock _ => some (.load 8)
  | .wfLoad0 _ _ => some (.load 0)
  | .wfLoad _ _ => some (.load 0)
  | .wfWait _ _ cur => some (.fwait 0 cur true)
  | .gtExc => some (.load 6)
  | .gtLoad => some (.load 3)
  | .cpAdd => some (.fadd 1 1)
  | .irLoad => some (.load 0)
  | .twLoad => some (.load 4)
  | .twLoad2 => some (.load 4)
  | .tick n => some (.fadd 8 n)

def contPC (cfg : Cfg) : PC → Int → PC
  | .idle, _ => .idle
  | .done r, _ => .done r
  | .tdone r lb, _ => .tdone r lb
  | .wdone, _ => .wdone
  | .gdone r, _ => .gdone r
  | .bad, _ => .bad
  | .rnTake, r => if r = 1 then .rnCas .closure else .bad
  -- `while (s == kNotStarted) { if (CAS(s, kRunning)) {…; return true;} } return false;`
  | .rnCas k, r => if r = 0 then .fnInc k else slow k
  | .fnInc k, _ => if cfg.throws then .fnThrow k else .fnStore k
  | .fnStore k, _ => .ntStore k
  | .fnThrow k, _ => .ntStore k
  | .ntStore k, _ => .ntWake k
  | .ntWake k, _ => if cfg.hasTsc ∧ k ≠ .notify then .tsSub k else fin k
  | .tsSub k, _ => fin k
  | .rcSub, r => if r = 1 then .dtExc else .done 0
  | .dtExc, r => if r = 0 then .dtStore else .dtFree
  | .dtStore, _ => .dtFree
  | .dtFree, _ => .done 0
  -- `s == kReady || (allowInline && run(s))`
  | .wcLoad k allow, r => if r = cfg.c then fin k else if r = 0 ∧ allow = true then .rnCas k else slow k
  | .evLoad k, r => if r = cfg.c then fin k else .evWait k r
  | .evWait k _, _ => .evLoad k
  | .tfClock rel fut, r => if fut then .wcLoad (.timed rel (r + rel)) cfg.allowInline else .wfLoad0 rel (r + rel)
  | .wuLoad abs, r => if r = cfg.c then .tdone 1 abs else .wuClock abs
  | .wuClock abs, r => .wfLoad0 (abs - r) abs
  | .wfLoad0 rel lb, r => if r = cfg.c then .tdone 1 lb else if 0 < rel then .wfLoad rel lb else .tdone 0 lb
  | .wfLoad rel lb, r => if r = cfg.c then .tdone 1 lb else .wfWait rel lb r
  | .wfWait rel lb _, r => if r = rTimedOut then .tdone 0 lb else .wfLoad rel lb
  | .gtExc, r => if r = 0 then .gtLoad else .gdone (-1)
  | .gtLoad, r => .gdone r
  | .cpAdd, _ => .done 0
  | .irLoad, r => .done (if r = cfg.c then 1 else 0)
  | .twLoad, r => if r = 0 then .done 0 else .twLoad2
  | .twLoad2, _ => .twLoad
  | .tick _, _ => .done 0

def op (cfg : Cfg) (l : L) : Option AOp := opPC cfg l.pc

def cont (cfg : Cfg) (l : L) (r : Int) : L :=
  ⟨match l.pc with | .cpAdd => l.h + 1 | _ => l.h, contPC cfg l.pc r⟩

def idleOrDone : PC → Bool
  | .idle | .done _ | .tdone _ _ | .wdone | .gdone _ => true
  | _ => false

/-- entry points that need an owned handle (`wait_until` of a Future goes through `waitCommon`) -/
def handleEntry (cfg : Cfg) : PC → Bool
  | .wcLoad .wait true => true
  | .wcLoad .get true => true
  | .wcLoad (.until _) a => a == cfg.allowInline
  | .tfClock _ true => true
  | .cpAdd | .irLoad => true
  | _ => false

/-- entry points that need no handle: invoking the scheduled closure, `TaskSet::wait()`, time -/
def freeEntry : PC → Bool
  | .rnTake | .twLoad => true
  | .tick n => decide (0 ≤ n)
  | _ => false

/-- the client contract of a Future -/
def futEntry (cfg : Cfg) (l l' : L) : Bool :=
  idleOrDone l.pc &&
    ((decide (l'.h = l.h) && freeEntry l'.pc)
     || (decide (l'.h = l.h) && decide (1 ≤ l.h) && handleEntry cfg l'.pc)
     || (decide (l'.h + 1 = l.h) && decide (l'.pc = .rcSub)))

def futProto (cfg : Cfg) : Proto :=
  { L := L, op := op cfg, cont := cont cfg, entry := futEntry cfg }

/-- CompletionEvent (no `reset()`): notify, wait, waitFor, waitUntil, completed; time passing -/
def evtEntryPC : PC → Bool
  | .ntStore .notify | .evLoad .wait | .tfClock _ false | .wuLoad _ | .irLoad => true
  | .tick n => decide (0 ≤ n)
  | _ => false

def evtEntry (l l' : L) : Bool := idleOrDone l.pc && decide (l'.h = l.h) && evtEntryPC l'.pc

def evtCfg : Cfg := { c := 1, val := 0, throws := false, hasTsc := false, allowInline := false }

def evtProto : Proto :=
  { L := L, op := op evtCfg, cont := cont evtCfg, entry := evtEntry }

/-- initial state of a freshly created, scheduled Future: thread `t < hs.length` owns `hs[t]`
handles; `refCount_` = these handles + the reference of the scheduled closure -/
def hsum (hs : List Nat) : Nat := ((List.range hs.length).map fun t => hs.getD t 0).sum

def futInit (cfg : Cfg) (hs : List Nat) (now : Int) : State (futProto cfg) :=
  { mem := fun f => if f = 1 then (hsum hs : Int) + 1 else if f = 4 then (if cfg.hasTsc then 1 else 0)
                    else if f = 5 then 1 else if f = 8 then now else 0
    loc := fun t => ⟨hs.getD t 0, .idle⟩
    parked := fun _ => none
    threads := List.range hs.length }

def evtInit (now : Int) : State evtProto :=
  { mem := fun f => if f = 8 then now else 0
    loc := fun _ => ⟨0, .idle⟩
    parked := fun _ => none
    threads := [] }

/-! ### timed semantics: a timed futex wait can time out only when its deadline has passed -/

/-- the relative timeout a thread passes to its pending timed futex wait -/
def relOf : PC → Int
  | .wfWait rel _ _ => rel
  | _ => 0

structure TState (P : Proto) where
  st : State P
  /-- deadline of the last futex wait started by each thread -/
  dl : TId → Int

/-- `exec` with the futex contract "a timed wait returns ETIMEDOUT only after its timespec has
elapsed": every step records `clock + rel` as the thread's deadline, `timeout` needs `dl ≤ clock` -/
def texec {P : Proto} (pcOf : P.L → PC) (s : TState P) (a : Act P) : Option (TState P) :=
  match a with
  | .timeout t => if s.dl t ≤ s.st.mem 8 then (exec s.st a).map (fun st' => ⟨st', s.dl⟩) else none
  | .step t => (exec s.st a).map fun st' =>
      ⟨st', fun u => if u = t then s.st.mem 8 + relOf (pcOf (s.st.loc t)) else s.dl u⟩
  | a => (exec s.st a).map (fun st' => ⟨st', s.dl⟩)

inductive TReachable {P : Proto} (pcOf : P.L → PC) (s0 : TState P) : TState P → Prop where
  | init : TReachable pcOf s0 s0
  | step {s s' : TState P} (a : Act P) : TReachable pcOf s0 s → texec pcOf s a = some s' → TReachable pcOf s0 s'

def pcOfL : L → PC := fun l => l.pc

/-! ### trace binding -/

def mkCall (cfg : Cfg) (name : String) (args : List Int) (l : L) : Option L :=
  match name, args with
  | "run", [] => some ⟨l.h, .rnTake⟩
  | "wait", [] => some ⟨l.h, .wcLoad .wait true⟩
  | "get", [] => some ⟨l.h, .wcLoad .get true⟩
  | "wait_for", [rel] => some ⟨l.h, .tfClock rel true⟩
  | "wait_until", [abs] => some ⟨l.h, .wcLoad (.until abs) cfg.allowInline⟩
  | "is_ready", [] => some ⟨l.h, .irLoad⟩
  | "copy", [] => some ⟨l.h, .cpAdd⟩
  | "drop", [] => some ⟨l.h - 1, .rcSub⟩
  | "ts_wait", [] => some ⟨l.h, .twLoad⟩
  | "tick", [n] => some ⟨l.h, .tick n⟩
  | _, _ => none

def retOf (l : L) : Option (List Int) :=
  match l.pc with
  | .done r => some [r]
  | .tdone r _ => some [r]
  | .wdone => some [0]
  | .gdone r => some [r]
  | _ => none

def fieldOf (s : String) : Option Fld :=
  if s = "status" then some 0 else if s = "ref" then some 1 else if s = "runs" then some 2
  else if s = "result" then some 3 else if s = "tsc" then some 4 else none

/-- declared orders of future_impl.h / completion_event_impl.h the SC argument relies on -/
def reqOrder (l : L) : Nat :=
  match l.pc with
  | .rnCas _ => 4 | .ntStore _ => 3 | .tsSub _ => 3 | .rcSub => 3
  | .wcLoad _ _ => 2 | .evLoad _ => 2 | .wuLoad _ => 2 | .wfLoad0 _ _ => 2 | .wfLoad _ _ => 2
  | .irLoad => 2 | .twLoad => 2 | .twLoad2 => 2
  | _ => 0

def binding (cfg : Cfg) : Trace.Binding (futProto cfg) :=
  { fieldOf := fieldOf
    bits := fun f => if f = 4 ∨ f = 8 then 64 else 32
    mkCall := mkCall cfg
    retOf := retOf
    silentFld := fun f => f = 5 ∨ f = 6 ∨ f = 7
    reqOrder := reqOrder }

def evtMkCall (name : String) (args : List Int) (l : L) : Option L :=
  match name, args with
  | "notify", [] => some ⟨l.h, .ntStore .notify⟩
  | "wait", [] => some ⟨l.h, .evLoad .wait⟩
  | "waitFor", [rel] => some ⟨l.h, .tfClock rel false⟩
  | "waitUntil", [abs] => some ⟨l.h, .wuLoad abs⟩
  | "completed", [] => some ⟨l.h, .irLoad⟩
  | "tick", [n] => some ⟨l.h, .tick n⟩
  | _, _ => none

def evtBinding : Trace.Binding evtProto :=
  { fieldOf := fieldOf
    bits := fun f => if f = 8 then 64 else 32
    mkCall := evtMkCall
    retOf := retOf
    reqOrder := reqOrder }

end Dispenso.Future
