/-
Model of `dispenso::detail::SmallBufferAllocator<kChunkSize>` and the `allocSmallBuffer<N>` front end
(dispenso/small_buffer_allocator.h, small_buffer_allocator.cpp, detail/small_buffer_allocator_impl.h) — C41.

Blocks are tokens: block `c * P + i` is the `i`-th `kChunkSize`-byte piece of the `c`-th slab obtained
from `alignedMalloc(kMallocBytes, kChunkSize)` (`P = kBuffersPerMalloc`).  A block token is, at any
time, somewhere in
  * the central store (`moodycamel::ConcurrentQueue<char*>`; third-party, modelled as a bag:
    `enqueue_bulk` adds, `try_dequeue_bulk` removes an arbitrary sub-bag of at most `max` elements,
    possibly none),
  * a thread's cache `tlBuffers[0, tlCount)` (`cache`, top of the stack = end of the list),
  * a thread's local arrays inside `grabFromCentralStore` / the argument of `dealloc` (`hold`),
  * the client (`live`: handed out by `alloc` and not yet passed to `dealloc`).
One model action per shared-memory operation of the code: the `backingStoreLock` word
(`fetch_add(1)` winner / `store(0)`, losers spin on `load`), the `bytesAllocated()` CAS loop, the
queue operations, `backingStore.push_back` (split into the read of the size and the write, so that a
broken lock shows as a lost slab), thread exit (`~PerThreadQueuingData`: the whole cache goes back to
the central store).  `Cfg.fixed = false` is the CAS loop as found (`expected` keeps the observed
value), `true` the repaired one (`expected` reset to 0).  `Cfg.exitResets = false` is
`~PerThreadQueuingData` as found (the blocks are enqueued but `tlCount` keeps its value), `true` the
repaired one (`tlCount = 0`).  A thread may call the allocator again after its per-thread data was
destroyed (another `thread_local` destructor that runs later): it then works on the cache the
destructor left behind; that the queue tokens are destroyed objects by then is outside the model
(the central store is a bag).
Core Lean only.
-/
namespace Dispenso.SmallBuf

abbrev TId := Nat
abbrev Blk := Nat

/-! ### class selection and per-class constants (small_buffer_allocator.h / _impl.h) -/

/-- `getOrdinal`: `max(0, log2const(blockSize) - 2)` -/
def getOrdinal (blockSize : Nat) : Nat := Nat.log2 blockSize - 2
/-- the `kChunkSize` of the allocator selected by `allocSmallBufferImpl(ordinal)` -/
def classSize (ord : Nat) : Nat := 4 * 2 ^ ord
def logFactor (n : Nat) : Nat := Nat.log2 (n ||| 1)
def mallocBytes (n : Nat) : Nat := 4096 * logFactor n
def idealTL (n : Nat) : Nat := mallocBytes n / 4 / n
def maxTL (n : Nat) : Nat := 2 * idealTL n
def perMalloc (n : Nat) : Nat := mallocBytes n / n

/-- address of a block, given the slab base addresses -/
def blkAddr (base : Nat → Nat) (P N : Nat) (b : Blk) : Nat := base (b / P) + (b % P) * N

/-! ### the allocator -/

structure Cfg where
  I : Nat            -- kIdealNumTLBuffers
  P : Nat            -- kBuffersPerMalloc
  fixed : Bool       -- bytesAllocated() resets `expected` to 0 after a failed CAS
  exitResets : Bool  -- ~PerThreadQueuingData() sets tlCount to 0 after returning the cache

inductive PC where
  | idle
  | aStart                 -- alloc(): `if (!tlCount)`
  | gDeq                   -- grabFromCentralStore: try_dequeue_bulk(buffers, I)
  | gFaa                   -- lock.fetch_add(1)
  | gSpin                  -- while (lock.load()) yield
  | gMalloc                -- (winner) alignedMalloc(kMallocBytes, kChunkSize)
  | gPushRd (ch : Nat)     -- backingStore.push_back(buffer): read the size
  | gPushWr (ch n : Nat)   -- … write slot n, size := n + 1
  | gEnq                   -- enqueue_bulk(topush, P - I)
  | gUnlock                -- lock.store(0)
  | gFill                  -- buffers[i] = … for the remaining I blocks; return I
  | aPop                   -- return tlBuffers[--tlCount]
  | aRet (b : Blk)
  | dPush                  -- dealloc: tlBuffers[tlCount++] = buffer
  | dRecycle               -- enqueue_bulk(tlBuffers + I, I); tlCount -= I
  | dRet
  | bCas (e : Nat)         -- bytesAllocated: compare_exchange_weak(allocId = e, 1)
  | bRead                  -- bytes = kMallocBytes * backingStore.size()
  | bUnlock (v : Nat)      -- lock.store(0)
  | bRet (v : Nat)
  deriving Repr, DecidableEq

/-- shared memory -/
structure Sh where
  central : List Blk
  lock : Nat
  nextChunk : Nat          -- slabs obtained from alignedMalloc so far
  backing : List Nat       -- backingStore
  live : List Blk
  deriving Repr

structure Thr where
  tid : TId
  pc : PC
  cache : List Blk
  hold : List Blk
  deriving Repr, DecidableEq

structure St where
  sh : Sh
  thr : List Thr
  exited : List TId
  deriving Repr

def Sh.init : Sh := { central := [], lock := 0, nextChunk := 0, backing := [], live := [] }
def St.init : St := { sh := Sh.init, thr := [], exited := [] }
def Thr.fresh (t : TId) : Thr := { tid := t, pc := .idle, cache := [], hold := [] }

inductive Call where
  | alloc
  | dealloc (b : Blk)
  | bytes
  deriving Repr, DecidableEq

inductive Act where
  | call (t : TId) (c : Call)
  | step (t : TId)
  | deq (t : TId) (bs : List Blk)    -- try_dequeue_bulk returned `bs` (in this order)
  | spur (t : TId)                   -- compare_exchange_weak failed spuriously
  | ret (t : TId)
  | exit (t : TId)                   -- thread exit: ~PerThreadQueuingData
  deriving Repr

/-- remove the elements of the second list from the first (as bags); `none` if one is missing -/
def removeAll : List Blk → List Blk → Option (List Blk)
  | l, [] => some l
  | l, b :: bs => if b ∈ l then removeAll (l.erase b) bs else none

/-- inside the critical section of `backingStoreLock` -/
def inCS : PC → Bool
  | .gMalloc | .gPushRd _ | .gPushWr _ _ | .gEnq | .gUnlock | .bRead | .bUnlock _ => true
  | _ => false

def tcall (g : Sh) (x : Thr) : Call → Option (Sh × Thr)
  | .alloc => if x.pc = .idle then some (g, { x with pc := .aStart }) else none
  | .dealloc b =>
    -- client contract: only a block that is currently handed out is deallocated
    if x.pc = .idle ∧ b ∈ g.live then
      some ({ g with live := g.live.erase b }, { x with pc := .dPush, hold := [b] })
    else none
  | .bytes => if x.pc = .idle then some (g, { x with pc := .bCas 0 }) else none

def tstep (c : Cfg) (g : Sh) (x : Thr) : Option (Sh × Thr) :=
  match x.pc with
  | .aStart => some (g, { x with pc := if x.cache = [] then .gDeq else .aPop })
  | .gFaa => some ({ g with lock := g.lock + 1 }, { x with pc := if g.lock = 0 then .gMalloc else .gSpin })
  | .gSpin => some (g, { x with pc := if g.lock = 0 then .gDeq else .gSpin })
  | .gMalloc =>
    some ({ g with nextChunk := g.nextChunk + 1 },
          { x with pc := .gPushRd g.nextChunk, hold := List.range' (g.nextChunk * c.P) c.P })
  | .gPushRd ch => some (g, { x with pc := .gPushWr ch g.backing.length })
  | .gPushWr ch n => some ({ g with backing := g.backing.take n ++ [ch] }, { x with pc := .gEnq })
  | .gEnq =>
    some ({ g with central := g.central ++ x.hold.take (c.P - c.I) },
          { x with pc := .gUnlock, hold := x.hold.drop (c.P - c.I) })
  | .gUnlock => some ({ g with lock := 0 }, { x with pc := .gFill })
  | .gFill => some (g, { x with pc := .aPop, cache := x.hold, hold := [] })
  | .aPop =>
    match x.cache.getLast? with
    | some b => some ({ g with live := b :: g.live }, { x with pc := .aRet b, cache := x.cache.dropLast })
    | none => none
  | .dPush =>
    some (g, { x with cache := x.cache ++ x.hold, hold := [],
                      pc := if (x.cache ++ x.hold).length = 2 * c.I then .dRecycle else .dRet })
  | .dRecycle =>
    some ({ g with central := g.central ++ x.cache.drop c.I }, { x with cache := x.cache.take c.I, pc := .dRet })
  | .bCas e =>
    if g.lock = e then some ({ g with lock := 1 }, { x with pc := .bRead })
    else some (g, { x with pc := .bCas (if c.fixed then 0 else g.lock) })
  | .bRead => some (g, { x with pc := .bUnlock g.backing.length })
  | .bUnlock v => some ({ g with lock := 0 }, { x with pc := .bRet v })
  | _ => none

def tdeq (c : Cfg) (g : Sh) (x : Thr) (bs : List Blk) : Option (Sh × Thr) :=
  if x.pc = .gDeq ∧ bs.length ≤ c.I then
    match removeAll g.central bs with
    | some rest =>
      if bs = [] then some (g, { x with pc := .gFaa })
      else some ({ g with central := rest }, { x with pc := .aPop, cache := bs })
    | none => none
  else none

def tspur (c : Cfg) (g : Sh) (x : Thr) : Option (Sh × Thr) :=
  match x.pc with
  | .bCas _ => some (g, { x with pc := .bCas (if c.fixed then 0 else g.lock) })
  | _ => none

def tret (g : Sh) (x : Thr) : Option (Sh × Thr) :=
  match x.pc with
  | .aRet _ | .dRet | .bRet _ => some (g, { x with pc := .idle })
  | _ => none

def findT (s : St) (t : TId) : Option Thr := s.thr.find? fun x => x.tid == t

def put (s : St) (x : Thr) (r : Sh × Thr) : St :=
  { s with sh := r.1, thr := r.2 :: s.thr.erase x }

def exec (c : Cfg) (s : St) : Act → Option St
  | .call t cl =>
    match findT s t with
    | some x => (tcall s.sh x cl).map (put s x)
    | none => (tcall s.sh (Thr.fresh t) cl).map fun r => { s with sh := r.1, thr := r.2 :: s.thr }
  | .step t =>
    match findT s t with
    | some x => (tstep c s.sh x).map (put s x)
    | none => none
  | .deq t bs =>
    match findT s t with
    | some x => (tdeq c s.sh x bs).map (put s x)
    | none => none
  | .spur t =>
    match findT s t with
    | some x => (tspur c s.sh x).map (put s x)
    | none => none
  | .ret t =>
    match findT s t with
    | some x => (tret s.sh x).map (put s x)
    | none => none
  | .exit t =>
    if t ∈ s.exited then none else
    match findT s t with
    | some x =>
      if x.pc = .idle then
        some { sh := { s.sh with central := s.sh.central ++ x.cache },
               thr := if c.exitResets then s.thr.erase x else s.thr, exited := t :: s.exited }
      else none
    | none => some { s with exited := t :: s.exited }

def run (c : Cfg) (s : St) : List Act → Option St
  | [] => some s
  | a :: as => match exec c s a with
    | some s' => run c s' as
    | none => none

inductive Reachable (c : Cfg) : St → Prop where
  | init : Reachable c St.init
  | step {s s' : St} (a : Act) : Reachable c s → exec c s a = some s' → Reachable c s'

/-- every block token of the state, wherever it is -/
def tblocks (x : Thr) : List Blk := x.cache ++ x.hold
def blocks (s : St) : List Blk := s.sh.central ++ s.sh.live ++ s.thr.flatMap tblocks

/-- number of threads inside the lock's critical section -/
def holders (s : St) : Nat := s.thr.countP fun x => inCS x.pc

/-- threads between the read and the write of `backingStore.push_back` -/
def pushing : PC → Bool
  | .gPushRd _ | .gPushWr _ _ => true
  | _ => false

end Dispenso.SmallBuf
