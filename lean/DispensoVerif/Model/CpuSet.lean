/-
Model of `dispenso::CpuSet` (Linux backing), `detail::parseLinuxCpuList` and
`detail::buildGroupsFromCacheTopology` (dispenso/cpu_set.{h,cpp}) — C43.
A set is the sorted duplicate-free list of the ids it contains; ids outside `[0, setSize)`
(`CPU_SETSIZE` = 1024) are ignored by every operation, exactly as the code does.
The parser mirrors the code's use of `strchr` / `strtol` on the character list.
Core Lean only.
-/
namespace Dispenso.CpuSet

def setSize : Nat := 1024
def kMaxReasonableCpuId : Int := 1048576

abbrev Set := List Nat     -- sorted, no duplicates

def insertSorted (x : Nat) : List Nat → List Nat
  | [] => [x]
  | y :: ys => if x < y then x :: y :: ys else if x = y then y :: ys else y :: insertSorted x ys

def add (s : Set) (i : Int) : Set := if 0 ≤ i ∧ i < setSize then insertSorted i.toNat s else s
def remove (s : Set) (i : Int) : Set := if 0 ≤ i ∧ i < setSize then s.filter (· ≠ i.toNat) else s
def contains (s : Set) (i : Int) : Bool := decide (0 ≤ i ∧ i < setSize) && s.contains i.toNat
def count (s : Set) : Nat := s.length

/-- addRange(start, end): ids in [max start 0, min end setSize) -/
def addRange (s : Set) (start stop : Int) : Set :=
  let lo := (max start 0).toNat
  let hi := (min stop setSize).toNat
  (List.range (hi - lo)).foldl (fun acc k => insertSorted (lo + k) acc) s

def removeRange (s : Set) (start stop : Int) : Set :=
  let lo := (max start 0).toNat
  let hi := (min stop setSize).toNat
  s.filter fun x => ¬ (lo ≤ x ∧ x < hi)

/-! ### parseLinuxCpuList -/

def isDigit (c : Char) : Bool := '0' ≤ c ∧ c ≤ '9'
def isSpace (c : Char) : Bool := c = ' ' ∨ c = '\t' ∨ c = '\n' ∨ c = '\x0b' ∨ c = '\x0c' ∨ c = '\r'

/-- digits of a prefix, as a number; the number of digit characters consumed -/
def digitsVal : List Char → Nat → Nat × Nat
  | [], acc => (acc, 0)
  | c :: cs, acc => if isDigit c then
      let r := digitsVal cs (acc * 10 + (c.toNat - '0'.toNat))
      (r.1, r.2 + 1)
    else (acc, 0)

/-- `strtol(s, &end, 10)` followed by the clamping of `parseIntClamped`:
    -1 if no digits were consumed, the value is negative, or it exceeds 2^20 -/
def parseIntClamped (s : List Char) : Int :=
  let s1 := s.dropWhile isSpace
  let (neg, s2) := match s1 with
    | '-' :: r => (true, r)
    | '+' :: r => (false, r)
    | r => (false, r)
  let (v, n) := digitsVal s2 0
  if n = 0 then -1
  else
    let v : Int := if neg then -(v : Int) else v
    if v < 0 ∨ v > kMaxReasonableCpuId then -1 else v

/-- split at the first occurrence of `c` (`strchr`) -/
def splitFirst (c : Char) : List Char → Option (List Char × List Char)
  | [] => none
  | x :: xs => if x = c then some ([], xs) else
    match splitFirst c xs with
    | some (a, b) => some (x :: a, b)
    | none => none

def parseAndAddRange (buf : List Char) (s : Set) : Set :=
  if buf = [] then s else
  match splitFirst '-' buf with
  | some (a, b) =>
    let lo := parseIntClamped a
    let hi := parseIntClamped b
    if lo ≥ 0 ∧ hi ≥ 0 then addRange s lo (hi + 1) else s
  | none =>
    let v := parseIntClamped buf
    if v ≥ 0 then add s v else s

def parseLoop : Nat → List Char → Set → Set
  | 0, _, s => s
  | fuel + 1, buf, s =>
    match splitFirst ',' buf with
    | some (a, b) => parseLoop fuel b (parseAndAddRange a s)
    | none => parseAndAddRange buf s

/-- the C string ends at the first NUL -/
def parseLinuxCpuList (input : List Char) : Set :=
  let str := input.takeWhile (· ≠ '\x00')
  parseLoop (str.length + 1) str []

/-! ### the grammar's denotation (specification of the parser) -/

inductive Item where
  | single (n : Nat)
  | range (lo hi : Nat)
  deriving Repr, DecidableEq

def denote (items : List Item) : Set :=
  items.foldl (fun s it => match it with
    | .single n => if (n : Int) ≤ kMaxReasonableCpuId then add s n else s
    | .range lo hi => if (lo : Int) ≤ kMaxReasonableCpuId ∧ (hi : Int) ≤ kMaxReasonableCpuId then addRange s lo ((hi : Int) + 1) else s) []

def natToChars (n : Nat) : List Char := (toString n).toList

def render : List Item → List Char
  | [] => []
  | [it] => (match it with | .single n => natToChars n | .range lo hi => natToChars lo ++ ['-'] ++ natToChars hi)
  | it :: rest => (match it with | .single n => natToChars n | .range lo hi => natToChars lo ++ ['-'] ++ natToChars hi) ++ [','] ++ render rest

/-! ### buildGroupsFromCacheTopology -/

def largestGroupSize (groups : List (List Int)) : Int := groups.foldl (fun m g => max m g.length) 0

/-- cpu → index of the (last) L3 group containing it, -1 if none -/
def l3Of (l3 : List (List Int)) (cpu : Int) : Int :=
  (l3.zipIdx.foldl (fun acc (p : List Int × Nat) => if p.1.contains cpu then (p.2 : Int) else acc) (-1))

def sortInts (l : List Int) : List Int := (l.toArray.qsort (· < ·)).toList

structure GState where
  result : List (List Int)
  pending : List Int
  currentL3 : Int

def flush (g : GState) : GState :=
  if g.pending = [] then g else { g with result := g.result ++ [sortInts g.pending], pending := [] }

def buildGroups (l2 l3 : List (List Int)) (maxGroupSize : Int) : List (List Int) :=
  let maxG := max maxGroupSize (largestGroupSize l2)
  let final := l2.foldl (fun (g : GState) atom =>
    match atom with
    | [] => g
    | cpu0 :: _ =>
      let aL3 := l3Of l3 cpu0
      let crosses := aL3 ≠ g.currentL3 ∧ g.currentL3 ≥ 0
      let exceeds := (g.pending.length : Int) + atom.length > maxG
      let g1 := if crosses ∨ exceeds then flush g else g
      { g1 with currentL3 := aL3, pending := g1.pending ++ atom }) { result := [], pending := [], currentL3 := -1 }
  (flush final).result

end Dispenso.CpuSet
