/-
Nested waits on a work-helping thread pool (C06).

What the code does (dispenso/task_set.cpp, thread_pool.h, thread_pool.cpp, detail/future_impl.h):

* A task handed to the pool sits in one *tier* until some thread pops it: the central queue
  (`work_`), a per-thread ring (`rings_[i]`, filled by the bulk ring fast path of external callers) or a
  group steal ring (`stealRings_[j]`, filled by placed scheduling, `scheduleImplPlaced`, and only after
  `claimAndWakeOne` has claimed a worker whose sleep-mask bit was set, i.e. a worker that was parked in
  its loop with no task on its stack at that moment).  A schedule call may also run the task at once on
  the caller's stack (load-based inline paths, zero-thread pool).
* `TaskSet::wait` / `ConcurrentTaskSet::wait` do not suspend: the waiting thread pops tasks from the
  central queue and from every per-thread ring (`tryExecuteNext`, `tryExecuteNextFromRings`) and runs
  them *on its own stack*, on top of the waiting task, until the set's outstanding count is zero; it
  never looks at the steal rings.  The inner drain loops do not re-check the count, so a waiter may take
  a task although its own set is already complete.
* A pool worker whose stack is empty pops from its own ring, the central queue and the steal rings
  (`tryFindAndExecuteWork`, the outer loop of `threadLoopImpl`).
* `Future::wait` runs the awaited functor itself if it has not been started (wherever the closure is
  queued), else blocks without helping.

The model: tasks are numbers with a finite script (`spawn child set`, `wait set helping?`); a thread is a
stack of running tasks (head = top); only the top task of a stack executes.  The tier contents are
`{c | status c = queued T}`; order inside a tier is not modelled (any queued task may be taken: an
over-approximation of FIFO).  The may-poll relation is a parameter (`Cfg`).  The outstanding count of a
set is represented by the list of its members that were scheduled and have not finished (`live S`; the
count is its length, "count = 0" is `live S = []`; that the real counter equals this number is C02).
Every task that starts gets a start stamp from a global clock (ghost state used by the proofs).

Abstractions, all widening the set of behaviours: any tier without the claim protocol may be chosen by
any schedule call; inline execution is always allowed; a waiter may help at any time while it is in
the wait; a claimed worker is only required to have had an empty stack when it was claimed.
Scheduling a child (count increment, choice of tier, push) is one step, or two (`decide`, `push`) when
the tier needs a claimed worker.  Not modelled: cancellation, exceptions, resize, pool destruction,
wake-up latency (a claimed worker is simply able to run), memory order.  Core Lean only.
-/
namespace Dispenso.Nested

abbrev TaskId := Nat
abbrev SetId := Nat
abbrev ThreadId := Nat

inductive Tier where
  | central
  | ring (i : Nat)
  | steal (j : Nat)
  deriving DecidableEq, Repr

inductive Act where
  /-- schedule task `c` into set `S` -/
  | spawn (c : TaskId) (S : SetId)
  /-- wait until every member of `S` has finished; `helping = true`: task-set wait (runs other queued
      tasks meanwhile), `false`: future wait (may only run a not-yet-started member of `S` itself) -/
  | wait (S : SetId) (helping : Bool)
  deriving DecidableEq, Repr

inductive Status where
  | idle
  | queued (T : Tier)
  | running
  | done
  deriving DecidableEq, Repr

def Status.isQueued : Status → Bool
  | .queued _ => true
  | _ => false

/-- a schedule call that has chosen a claim-protected tier and has claimed worker `w` for it -/
structure Pend where
  c : TaskId
  S : SetId
  T : Tier
  w : Nat
  deriving DecidableEq, Repr

/-- Threads `0 … nWorkers-1` are pool workers; larger ids are external threads. -/
structure Cfg where
  nWorkers : Nat
  /-- tiers a thread inside a helping wait pops from -/
  pollsWaiter : Tier → Bool
  /-- tiers worker `w` pops from when its stack is empty -/
  pollsWorker : Nat → Tier → Bool
  /-- a task is pushed into this tier only by a schedule call that first claimed a worker which polls
      the tier and had an empty stack when it was claimed -/
  needsClaim : Tier → Bool

/-- The unchanged code: waiters drain the central queue and all rings, never a steal ring; worker `w`
    pops its own ring, the central queue and the steal rings; steal rings are filled only after
    `claimAndWakeOne` succeeded. -/
def cfgCode (n : Nat) : Cfg where
  nWorkers := n
  pollsWaiter := fun T => match T with | .steal _ => false | _ => true
  pollsWorker := fun w T => match T with | .ring i => i == w | _ => true
  needsClaim := fun T => match T with | .steal _ => true | _ => false

/-- Every actor polls every tier, no claim protocol. -/
def cfgAll (n : Nat) : Cfg where
  nWorkers := n
  pollsWaiter := fun _ => true
  pollsWorker := fun _ _ => true
  needsClaim := fun _ => false

structure Prog where
  scripts : List (List Act)
  /-- root tasks: the i-th external thread starts with `roots[i]` on its stack -/
  roots : List TaskId

def Prog.script (p : Prog) (t : TaskId) : List Act := p.scripts.getD t []

structure St where
  status : TaskId → Status
  rem : TaskId → List Act
  stamp : TaskId → Nat
  parent : TaskId → TaskId
  pend : TaskId → Option Pend
  clock : Nat
  stack : ThreadId → List TaskId
  live : SetId → List TaskId

def upd {α : Type} (f : Nat → α) (a : Nat) (b : α) : Nat → α := fun x => if x = a then b else f x

def init (cfg : Cfg) (p : Prog) : St where
  status := fun t => if t ∈ p.roots then .running else .idle
  rem := p.script
  stamp := fun _ => 0
  parent := fun _ => 0
  pend := fun _ => none
  clock := 1
  stack := fun th =>
    if cfg.nWorkers ≤ th then
      match p.roots[th - cfg.nWorkers]? with
      | some r => [r]
      | none => []
    else []
  live := fun _ => []

inductive Ev where
  /-- top task of `th` schedules `c` into `S`: tier `T` chosen; if the tier needs a claim, worker `w` is claimed -/
  | decide (th : ThreadId) (c : TaskId) (S : SetId) (T : Tier) (w : Nat)
  /-- the pending schedule call of the top task of `th` pushes the task, to the chosen tier or (push
      failed) to a tier without claim protocol -/
  | push (th : ThreadId) (T : Tier)
  /-- top task of `th` schedules `c` into `S` and the call runs it at once on this stack -/
  | inline (th : ThreadId) (c : TaskId) (S : SetId)
  /-- `th` pops `c` from tier `T` and starts it: an idle worker, or a thread inside a helping wait -/
  | take (th : ThreadId) (c : TaskId) (T : Tier)
  /-- `th`, inside a future wait on the set of `c`, runs the not-yet-started `c` itself -/
  | takeDirect (th : ThreadId) (c : TaskId)
  /-- the wait of the top task of `th` returns -/
  | waitRet (th : ThreadId)
  /-- the top task of `th` has finished -/
  | finish (th : ThreadId)
  deriving Repr

def St.consume (s : St) (t : TaskId) : St := { s with rem := upd s.rem t (s.rem t).tail }

/-- register `c` as a member of `S` scheduled by `t`, in tier `T` (no effect if `c` was scheduled before) -/
def St.place (s : St) (t c : TaskId) (S : SetId) (T : Tier) : St :=
  if s.status c = .idle then
    { s with status := upd s.status c (.queued T), parent := upd s.parent c t,
             live := upd s.live S (c :: s.live S) }
  else s

def St.start (s : St) (th : ThreadId) (c : TaskId) : St :=
  { s with status := upd s.status c .running, stamp := upd s.stamp c s.clock, clock := s.clock + 1,
           stack := upd s.stack th (c :: s.stack th) }

def step? (cfg : Cfg) (s : St) : Ev → Option St
  | .decide th c S T w =>
    match s.stack th with
    | [] => none
    | t :: _ =>
      if (s.rem t).head? = some (.spawn c S) ∧ s.pend t = none ∧
         (cfg.needsClaim T = true → w < cfg.nWorkers ∧ cfg.pollsWorker w T = true ∧ s.stack w = []) then
        if cfg.needsClaim T = true then
          some { s.consume t with pend := upd s.pend t (some ⟨c, S, T, w⟩) }
        else some ((s.consume t).place t c S T)
      else none
  | .push th T' =>
    match s.stack th with
    | [] => none
    | t :: _ =>
      match s.pend t with
      | none => none
      | some pd =>
        if T' = pd.T ∨ cfg.needsClaim T' = false then
          some ({ s with pend := upd s.pend t none }.place t pd.c pd.S T')
        else none
  | .inline th c S =>
    match s.stack th with
    | [] => none
    | t :: _ =>
      if (s.rem t).head? = some (.spawn c S) ∧ s.pend t = none then
        if s.status c = .idle then
          -- registered as a member of `S` and started in the same step (the tier passed to `place` is
          -- overwritten by `start`)
          some (((s.consume t).place t c S .central).start th c)
        else some (s.consume t)
      else none
  | .take th c T =>
    if s.status c = .queued T then
      match s.stack th with
      | [] => if th < cfg.nWorkers ∧ cfg.pollsWorker th T = true then some (s.start th c) else none
      | t :: _ =>
        match (s.rem t).head? with
        | some (.wait _ true) =>
          if s.pend t = none ∧ cfg.pollsWaiter T = true then some (s.start th c) else none
        | _ => none
    else none
  | .takeDirect th c =>
    match s.stack th with
    | [] => none
    | t :: _ =>
      match (s.rem t).head? with
      | some (.wait S false) =>
        if s.pend t = none ∧ c ∈ s.live S ∧ (s.status c).isQueued = true then some (s.start th c) else none
      | _ => none
  | .waitRet th =>
    match s.stack th with
    | [] => none
    | t :: _ =>
      match (s.rem t).head? with
      | some (.wait S _) => if s.pend t = none ∧ s.live S = [] then some (s.consume t) else none
      | _ => none
  | .finish th =>
    match s.stack th with
    | [] => none
    | t :: rest =>
      if s.rem t = [] ∧ s.pend t = none then
        some { s with status := upd s.status t .done, stack := upd s.stack th rest,
                      live := fun S => (s.live S).filter (· != t) }
      else none

/-- may thread `th`, in its present situation, pop from tier `T`?  (the role part of the `take` guard: an
    idle worker, or a thread whose top task is inside a helping wait) -/
def mayTake (cfg : Cfg) (s : St) (th : ThreadId) (T : Tier) : Bool :=
  match s.stack th with
  | [] => decide (th < cfg.nWorkers) && cfg.pollsWorker th T
  | t :: _ =>
    match (s.rem t).head? with
    | some (.wait _ true) => (s.pend t).isNone && cfg.pollsWaiter T
    | _ => false

inductive Reachable (cfg : Cfg) (p : Prog) : St → Prop where
  | init : Reachable cfg p (init cfg p)
  | step {s s' : St} (e : Ev) : Reachable cfg p s → step? cfg s e = some s' → Reachable cfg p s'

/-- a task has been scheduled or started and has not finished -/
def St.Unfinished (s : St) (c : TaskId) : Prop := s.status c = .running ∨ ∃ T, s.status c = .queued T

/-- Some task is unfinished and no thread can do anything but spin (or stay blocked). -/
def Stuck (cfg : Cfg) (s : St) : Prop := (∃ c, s.Unfinished c) ∧ ∀ e, step? cfg s e = none

def runEvents (cfg : Cfg) (s : St) : List Ev → Option St
  | [] => some s
  | e :: es => match step? cfg s e with
    | some s' => runEvents cfg s' es
    | none => none

/-! ### Disciplines on programs -/

/-- Fork-join discipline: whoever waits on a set scheduled all of its members itself (`owner`),
    every set a task schedules into is waited on by that task afterwards (in the library the
    destructor of a task set waits), and the root tasks are distinct. -/
structure ForkJoin (p : Prog) : Prop where
  owner : ∀ t t' c S h, Act.wait S h ∈ p.script t → Act.spawn c S ∈ p.script t' → t' = t
  waits : ∀ t pre c S post, p.script t = pre ++ Act.spawn c S :: post → ∃ h, Act.wait S h ∈ post
  roots : p.roots.Nodup

/-- executable check of `ForkJoin` -/
def waitsAfter : List Act → Bool
  | [] => true
  | .spawn _ S :: r => (r.any fun a => match a with | .wait S' _ => S' == S | _ => false) && waitsAfter r
  | _ :: r => waitsAfter r

def nodupB : List Nat → Bool
  | [] => true
  | a :: l => !l.contains a && nodupB l

/-- all ordered pairs (action of task t, action of task t') satisfy `f` -/
def pairCheck (p : Prog) (f : TaskId → TaskId → Act → Act → Bool) : Bool :=
  let n := p.scripts.length
  (List.range n).all fun t => (List.range n).all fun t' =>
    (p.script t).all fun a => (p.script t').all fun b => f t t' a b

def forkJoinCheck (p : Prog) : Bool :=
  (pairCheck p fun t t' a b =>
      match a, b with
      | .wait S _, .spawn _ S' => S != S' || t' == t
      | _, _ => true) &&
  (p.scripts.all waitsAfter) && nodupB p.roots

/-- No cyclic wait-for dependency: a task that waits on a set ranks above every task scheduled into it. -/
def Acyclic (p : Prog) : Prop :=
  ∃ rank : TaskId → Nat, ∀ t t' c S h, Act.wait S h ∈ p.script t → Act.spawn c S ∈ p.script t' → rank c < rank t

/-- executable check of `Acyclic` for a given rank function -/
def acyclicCheck (p : Prog) (rank : TaskId → Nat) : Bool :=
  pairCheck p fun t _ a b =>
    match a, b with
    | .wait S _, .spawn c S' => S != S' || decide (rank c < rank t)
    | _, _ => true

end Dispenso.Nested
