/-
Model of `dispenso::SmallVector<T, N>` (dispenso/small_vector.h) — C38.
A vector is its contents (`List Int`, the element tags), whether it currently uses heap storage and
its capacity; `live` counts element objects constructed and not yet destroyed exactly as the code
constructs/destroys them, `heapBlocks` counts heap buffers allocated and not yet freed.
Each operation is written as the loop the C++ performs. The alignment part of the property is the
arithmetic fact `elemAddr_aligned` about the address the allocation call guarantees.
Core Lean only.
-/
namespace Dispenso.SmallVec

structure Vec where
  items : List Int
  heap : Bool
  cap : Nat
  deriving Repr, DecidableEq

structure St where
  N : Nat                          -- inline capacity
  vecs : List (Nat × Vec)
  live : Int
  heapBlocks : Int
  next : Nat
  deriving Repr

def St.init (N : Nat) : St := { N := N, vecs := [], live := 0, heapBlocks := 0, next := 0 }

def emptyVec (N : Nat) : Vec := { items := [], heap := false, cap := N }

/-- growToHeap(newCap): allocate, move-construct + destroy each element (net 0), free old heap -/
def growToHeap (v : Vec) (newCap : Nat) : Vec × Int :=
  ({ v with heap := true, cap := newCap }, if v.heap then 0 else 1)

/-- ensureCapacity(newCap); returns the vector and the change in number of heap blocks -/
def ensureCapacity (N : Nat) (v : Vec) (newCap : Nat) : Vec × Int :=
  if newCap ≤ N ∧ ¬ v.heap then (v, 0)
  else if ¬ v.heap then growToHeap v newCap
  else if newCap > v.cap then growToHeap v newCap
  else (v, 0)

/-- emplace_back(x) -/
def emplaceBack (N : Nat) (v : Vec) (x : Int) : Vec × Int :=
  let (v1, dh) :=
    if ¬ v.heap then (if v.items.length < N then (v, (0 : Int)) else growToHeap v (N * 2))
    else (if v.items.length = v.cap then growToHeap v (v.cap * 2) else (v, 0))
  ({ v1 with items := v1.items ++ [x] }, dh)

def pushAll (N : Nat) (v : Vec) (xs : List Int) : Vec × Int :=
  xs.foldl (fun acc x => let r := emplaceBack N acc.1 x; (r.1, acc.2 + r.2)) (v, 0)

/-- destroyAll(): destroys every element, frees the heap buffer; the caller then sets size_ = 0,
    which also clears the heap bit -/
def destroyAllDelta (v : Vec) : Int × Int := (-(v.items.length : Int), if v.heap then -1 else 0)

inductive Op where
  | mk                                   -- SmallVector()
  | mkCount (n : Nat) (x : Int)          -- SmallVector(count, value)
  | copyCtor (src : Nat)
  | moveCtor (src : Nat)
  | copyAssign (dst src : Nat)
  | moveAssign (dst src : Nat)
  | pushBack (o : Nat) (x : Int)
  | popBack (o : Nat)
  | resize (o : Nat) (n : Nat) (x : Int)
  | reserve (o : Nat) (n : Nat)
  | clear (o : Nat)
  | erase (o : Nat) (idx : Nat)
  | destroy (o : Nat)
  | query (o : Nat)
  deriving Repr

def get (s : St) (o : Nat) : Option Vec := (s.vecs.find? (·.1 = o)).map (·.2)

def put (s : St) (o : Nat) (v : Vec) : St :=
  { s with vecs := s.vecs.map fun p => if p.1 = o then (p.1, v) else p }

def add (s : St) (v : Vec) : St := { s with vecs := s.vecs ++ [(s.next, v)], next := s.next + 1 }

structure Out where
  size : Nat
  cap : Nat
  items : List Int
  live : Int
  heapBlocks : Int
  deriving Repr

def outOf (s : St) (v : Vec) : Option Out :=
  some { size := v.items.length, cap := v.cap, items := v.items, live := s.live, heapBlocks := s.heapBlocks }

/-- resize(count, value) -/
def resizeVec (N : Nat) (v : Vec) (n : Nat) (x : Int) : Vec × Int × Int :=
  if n > v.items.length then
    let (v1, dh) := ensureCapacity N v n
    ({ v1 with items := v1.items ++ List.replicate (n - v1.items.length) x }, (n - v.items.length : Nat), dh)
  else if n < v.items.length then
    ({ v with items := v.items.take n }, -((v.items.length - n : Nat) : Int), 0)
  else (v, 0, 0)

/-- move construction / assignment source handling: inline elements are moved one by one (and the
    moved-from ones destroyed), a heap buffer is stolen; the source ends empty and inline -/
def moveFrom (N : Nat) (src : Vec) : Vec × Vec :=
  if src.heap then ({ items := src.items, heap := true, cap := src.cap }, emptyVec N)
  else ({ items := src.items, heap := false, cap := N }, emptyVec N)

def step (s : St) : Op → St × Option Out
  | .mk =>
    let v := emptyVec s.N
    let s' := add s v
    (s', outOf s' v)
  | .mkCount n x =>
    let (v, dl, dh) := resizeVec s.N (emptyVec s.N) n x
    let s' := add { s with live := s.live + dl, heapBlocks := s.heapBlocks + dh } v
    (s', outOf s' v)
  | .copyCtor src =>
    match get s src with
    | none => (s, none)
    | some sv =>
      let (v0, dh0) := ensureCapacity s.N (emptyVec s.N) sv.items.length
      let (v, dh) := pushAll s.N v0 sv.items
      let s' := add { s with live := s.live + sv.items.length, heapBlocks := s.heapBlocks + dh0 + dh } v
      (s', outOf s' v)
  | .moveCtor src =>
    match get s src with
    | none => (s, none)
    | some sv =>
      let (v, sv') := moveFrom s.N sv
      let s' := add (put s src sv') v
      (s', outOf s' v)
  | .copyAssign dst src =>
    match get s dst, get s src with
    | some dv, some sv =>
      if dst = src then (s, outOf s dv) else
      let (dl, dhD) := destroyAllDelta dv
      let (v0, dh0) := ensureCapacity s.N (emptyVec s.N) sv.items.length
      let (v, dh) := pushAll s.N v0 sv.items
      let s1 := { s with live := s.live + dl + sv.items.length, heapBlocks := s.heapBlocks + dhD + dh0 + dh }
      let s2 := put s1 dst v
      (s2, outOf s2 v)
    | _, _ => (s, none)
  | .moveAssign dst src =>
    match get s dst, get s src with
    | some dv, some sv =>
      if dst = src then (s, outOf s dv) else
      let (dl, dhD) := destroyAllDelta dv
      let (v, sv') := moveFrom s.N sv
      let s1 := { s with live := s.live + dl, heapBlocks := s.heapBlocks + dhD }
      let s2 := put (put s1 dst v) src sv'
      (s2, outOf s2 v)
    | _, _ => (s, none)
  | .pushBack o x =>
    match get s o with
    | some v =>
      let (v', dh) := emplaceBack s.N v x
      let s1 := put { s with live := s.live + 1, heapBlocks := s.heapBlocks + dh } o v'
      (s1, outOf s1 v')
    | none => (s, none)
  | .popBack o =>
    match get s o with
    | some v =>
      if v.items = [] then (s, none) else
      let v' := { v with items := v.items.dropLast }
      let s1 := put { s with live := s.live - 1 } o v'
      (s1, outOf s1 v')
    | none => (s, none)
  | .resize o n x =>
    match get s o with
    | some v =>
      let (v', dl, dh) := resizeVec s.N v n x
      let s1 := put { s with live := s.live + dl, heapBlocks := s.heapBlocks + dh } o v'
      (s1, outOf s1 v')
    | none => (s, none)
  | .reserve o n =>
    match get s o with
    | some v =>
      let (v', dh) := ensureCapacity s.N v n
      let s1 := put { s with heapBlocks := s.heapBlocks + dh } o v'
      (s1, outOf s1 v')
    | none => (s, none)
  | .clear o =>
    match get s o with
    | some v =>
      let (dl, dh) := destroyAllDelta v
      let v' := emptyVec s.N
      let s1 := put { s with live := s.live + dl, heapBlocks := s.heapBlocks + dh } o v'
      (s1, outOf s1 v')
    | none => (s, none)
  | .erase o idx =>
    match get s o with
    | some v =>
      if idx < v.items.length then
        let v' := { v with items := v.items.eraseIdx idx }
        let s1 := put { s with live := s.live - 1 } o v'
        (s1, outOf s1 v')
      else (s, none)
    | none => (s, none)
  | .destroy o =>
    match get s o with
    | some v =>
      let (dl, dh) := destroyAllDelta v
      let s1 := { s with vecs := s.vecs.filter (·.1 ≠ o), live := s.live + dl, heapBlocks := s.heapBlocks + dh }
      (s1, some { size := 0, cap := 0, items := [], live := s1.live, heapBlocks := s1.heapBlocks })
    | none => (s, none)
  | .query o =>
    match get s o with
    | some v => (s, outOf s v)
    | none => (s, none)

def runOps (s : St) : List Op → St
  | [] => s
  | o :: os => runOps (step s o).1 os

/-- sum of the sizes of all live vectors, number of vectors on the heap -/
def totalItems (s : St) : Int := (s.vecs.map fun p => (p.2.items.length : Int)).sum
def heapVecs (s : St) : Int := ((s.vecs.filter fun p => p.2.heap).length : Nat)

/-- element i of a buffer at address `a` whose elements have size `S` -/
def elemAddr (a S i : Nat) : Nat := a + i * S

end Dispenso.SmallVec
