/-
Model of `dispenso::ResourcePool<T>` / `dispenso::Resource<T>` (dispenso/resource_pool.h) — C25, at
handle level.

The pool owns `size` resources (ids `0 … size-1`, numbered in construction order).  A resource id is,
at any time, in the queue of free resources, in a live `Resource` handle, or destroyed.  The queue is
`moodycamel::BlockingConcurrentQueue<T*>` (third-party): modelled as a bag of ids guarded by a counting
semaphore — `enqueue` = add the id, then `signal` (two steps); `wait_dequeue` = `wait` on the
semaphore (enabled only when its count is positive: this is where a thread blocks), then remove some
id from the bag (two steps).  Handle operations: `acquire()` into a fresh handle, move construction,
move assignment (recycle the destination's resource, then take the source's), destruction (recycle).
Pool construction enqueues the resources one by one; destruction dequeues `size` times and destroys
what it gets.  Contracts of the class that the model's `call` enforces: handles are used while the
pool is alive (or are empty), and the pool is destroyed only when every resource is back and no call
is in progress.  One model action per step above, any number of threads, any interleaving.
A thread record exists only while the thread is inside a call.  Core Lean only.
-/
namespace Dispenso.ResPool

abbrev TId := Nat
abbrev Rid := Nat
abbrev HId := Nat

inductive Phase where
  | unborn | ctor | alive | dying | dead
  deriving Repr, DecidableEq

/-- what is left of a handle operation after its `recycle()` part -/
inductive Cont where
  | destroy (h : HId)          -- ~Resource()
  | assign (h src : HId)       -- operator=(Resource&&), h ≠ src
  deriving Repr, DecidableEq

def Cont.handle : Cont → HId
  | .destroy h => h
  | .assign h _ => h

inductive PC where
  | cLoop                      -- ResourcePool(): for (i < size) pool_.enqueue(new (buf) T(init()))
  | cRet
  | acqSem (h : HId)           -- acquire(): wait_dequeue: sema->wait()
  | acqDeq (h : HId)           --   … inner.try_dequeue(t); return Resource(t, this)
  | acqRet (h : HId) (r : Rid)
  | rel (k : Cont)             -- recycle(): if (resource_) pool_->recycle(resource_): inner.enqueue
  | relSig (k : Cont)          --   … sema->signal()
  | fin (k : Cont)             -- the rest of the handle operation
  | hRet
  | dSem (left : Nat)          -- ~ResourcePool(): for (i < size_) wait_dequeue: sema->wait()
  | dDeq (left : Nat)          --   … try_dequeue(t); t->~T()
  | dRet
  deriving Repr, DecidableEq

structure Sh where
  size : Nat
  phase : Phase
  queue : List Rid
  sem : Nat
  held : List (HId × Rid)      -- live handles that hold a resource
  liveH : List HId             -- live handles (holding or empty)
  made : Nat                   -- resources constructed so far
  destroyed : List Rid
  deriving Repr

structure Thr where
  tid : TId
  pc : PC
  deriving Repr, DecidableEq

structure St where
  sh : Sh
  thr : List Thr
  deriving Repr

def St.init (size : Nat) : St :=
  { sh := { size := size, phase := .unborn, queue := [], sem := 0, held := [], liveH := [], made := 0, destroyed := [] },
    thr := [] }

inductive Call where
  | ctor
  | acquire (h : HId)
  | moveCtor (h src : HId)
  | moveAssign (h src : HId)
  | destroy (h : HId)
  | dtor
  deriving Repr, DecidableEq

inductive Act where
  | call (t : TId) (c : Call)
  | step (t : TId)
  | deq (t : TId) (r : Rid)      -- the dequeue of `wait_dequeue` returned resource `r`
  | ret (t : TId)
  deriving Repr

def holds (g : Sh) (h : HId) : Option (HId × Rid) := g.held.find? fun e => e.1 == h

/-- move the resource of `src` (if any) to `h` -/
def moveRes (g : Sh) (h src : HId) : List (HId × Rid) :=
  match holds g src with
  | some e => (h, e.2) :: g.held.erase e
  | none => g.held

def handlePhase (g : Sh) : Bool := g.phase = .alive || g.phase = .dead

/-- start of a call by a thread that is not inside one; `thr`: the records of the other threads -/
def tcall (g : Sh) (others : List Thr) : Call → Option (Sh × PC)
  | .ctor => if g.phase = .unborn then some ({ g with phase := .ctor }, .cLoop) else none
  | .acquire h => if g.phase = .alive ∧ h ∉ g.liveH then some (g, .acqSem h) else none
  | .moveCtor h src =>
    if handlePhase g ∧ src ∈ g.liveH ∧ h ∉ g.liveH then
      some ({ g with liveH := h :: g.liveH, held := moveRes g h src }, .hRet)
    else none
  | .moveAssign h src =>
    if handlePhase g ∧ src ∈ g.liveH ∧ h ∈ g.liveH then
      if h = src then some (g, .hRet) else some (g, .rel (.assign h src))
    else none
  | .destroy h => if handlePhase g ∧ h ∈ g.liveH then some (g, .rel (.destroy h)) else none
  | .dtor =>
    -- "The user must ensure that all resources are returned to the pool prior to destroying the pool"
    if g.phase = .alive ∧ g.held = [] ∧ others = [] then some ({ g with phase := .dying }, .dSem g.size) else none

def tstep (g : Sh) : PC → Option (Sh × PC)
  | .cLoop =>
    -- (the constructor runs on the object under construction: `phase = ctor` always holds here)
    if g.phase ≠ .ctor then none else
    if g.made < g.size then
      some ({ g with made := g.made + 1, queue := g.queue ++ [g.made], sem := g.sem + 1 }, .cLoop)
    else some ({ g with phase := .alive }, .cRet)
  | .acqSem h => if 0 < g.sem then some ({ g with sem := g.sem - 1 }, .acqDeq h) else none
  | .rel k =>
    match holds g k.handle with
    | some e => some ({ g with held := g.held.erase e, queue := g.queue ++ [e.2] }, .relSig k)
    | none => some (g, .fin k)
  | .relSig k => some ({ g with sem := g.sem + 1 }, .fin k)
  | .fin (.destroy h) => some ({ g with liveH := g.liveH.erase h }, .hRet)
  | .fin (.assign h src) => some ({ g with held := moveRes g h src }, .hRet)
  | .dSem left =>
    if left = 0 then some ({ g with phase := .dead }, .dRet)
    else if 0 < g.sem then some ({ g with sem := g.sem - 1 }, .dDeq left) else none
  | _ => none

def tdeq (g : Sh) (r : Rid) : PC → Option (Sh × PC)
  | .acqDeq h =>
    if r ∈ g.queue then
      some ({ g with queue := g.queue.erase r, held := (h, r) :: g.held, liveH := h :: g.liveH }, .acqRet h r)
    else none
  | .dDeq left =>
    if r ∈ g.queue then
      some ({ g with queue := g.queue.erase r, destroyed := g.destroyed ++ [r] }, .dSem (left - 1))
    else none
  | _ => none

def isRet : PC → Bool
  | .cRet | .acqRet _ _ | .hRet | .dRet => true
  | _ => false

def findT (s : St) (t : TId) : Option Thr := s.thr.find? fun x => x.tid == t

def exec (s : St) : Act → Option St
  | .call t c =>
    match findT s t with
    | some _ => none
    | none => (tcall s.sh s.thr c).map fun r => { sh := r.1, thr := ⟨t, r.2⟩ :: s.thr }
  | .step t =>
    match findT s t with
    | some x => (tstep s.sh x.pc).map fun r => { sh := r.1, thr := ⟨t, r.2⟩ :: s.thr.erase x }
    | none => none
  | .deq t r =>
    match findT s t with
    | some x => (tdeq s.sh r x.pc).map fun q => { sh := q.1, thr := ⟨t, q.2⟩ :: s.thr.erase x }
    | none => none
  | .ret t =>
    match findT s t with
    | some x => if isRet x.pc then some { s with thr := s.thr.erase x } else none
    | none => none

def run (s : St) : List Act → Option St
  | [] => some s
  | a :: as => match exec s a with
    | some s' => run s' as
    | none => none

inductive Reachable (size : Nat) : St → Prop where
  | init : Reachable size (St.init size)
  | step {s s' : St} (a : Act) : Reachable size s → exec s a = some s' → Reachable size s'

/-- where every resource id is -/
def heldRids (g : Sh) : List Rid := g.held.map Prod.snd
def allRids (g : Sh) : List Rid := g.queue ++ heldRids g ++ g.destroyed

/-- threads that took a semaphore token and have not dequeued yet -/
def isTaker : PC → Bool
  | .acqDeq _ | .dDeq _ => true
  | _ => false
/-- threads that enqueued a resource and have not signalled yet -/
def isPend : PC → Bool
  | .relSig _ => true
  | _ => false
def takers (s : St) : Nat := s.thr.countP fun x => isTaker x.pc
def pending (s : St) : Nat := s.thr.countP fun x => isPend x.pc

/-- a thread blocked in `acquire()`: waiting on the semaphore whose count is zero -/
def blockedIn (s : St) (t : TId) : Prop := ∃ h, (⟨t, .acqSem h⟩ : Thr) ∈ s.thr ∧ s.sh.sem = 0

end Dispenso.ResPool
