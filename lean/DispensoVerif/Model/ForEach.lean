import DispensoVerif.Model.ParFor
/-
Model of the planning logic of `dispenso::for_each_n` (dispenso/for_each.h) — C15.
`plan n maxThreads wait poolThreads recursive` yields the `(offset, size)` chunks of elements, each
chunk being applied by one task (the last one by the caller when `wait`). The repaired code clamps
the thread count to at least one (a zero-thread pool with wait = false used to divide by zero).
Core Lean only.
-/
namespace Dispenso.ForEach
open Dispenso.Chunk Dispenso.ParFor

structure Plan where
  serial : Bool
  chunks : List (Int × Int)    -- (offset, size), in chunk-index order
  tasks : Int
  deriving Repr

def plan (n : Int) (maxThreads : Nat) (wait : Bool) (poolThreads : Int) (recursive : Bool) : Plan :=
  if n = 0 ∨ maxThreads = 0 ∨ recursive then
    { serial := true, chunks := if n = 0 then [] else [(0, n)], tasks := 1 }
  else
    let mt := clampMaxThreads maxThreads
    let numThreads := min (min (poolThreads + b2n wait) mt) n
    -- repaired: `numThreads = max(numThreads, 1)`
    let numThreads := max numThreads 1
    { serial := false,
      chunks := (List.range numThreads.toNat).map fun (i : Nat) => forEachOffset n numThreads (i : Int),
      tasks := numThreads }

end Dispenso.ForEach
