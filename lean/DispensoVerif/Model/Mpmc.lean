import DispensoVerif.Core.Trace
/-
Model of `dispenso::MpmcRingBuffer<T, Capacity>` (dispenso/mpmc_ring_buffer.h) — C34.
`K` is the buffer size (`kBufferSize`); `wrapIndex i = i % K` (the power-of-two mask is the same
function). Fields: 0 `head_`, 1 `tail_`, `seqF i = 2 + 2 i` the slot's sequence number,
`dataF i = 3 + 2 i` the slot's element (the harness's element type has one atomic member:
constructing stores the tag, moving out exchanges with the moved-from marker -1).
One model action per atomic operation, in the order the C++ performs them.
Counters are unbounded (2^64 wrap-around is excluded). Core Lean only.
-/
namespace Dispenso.Mpmc
open Dispenso.Conc

def movedFrom : Int := -1

def wrapIdx (K : Nat) (i : Int) : Nat := (i % (K : Int)).toNat
def seqF (K : Nat) (i : Int) : Fld := 2 + 2 * wrapIdx K i
def dataF (K : Nat) (i : Int) : Fld := 3 + 2 * wrapIdx K i

inductive L where
  | idle
  | done (ret : List Int)
  -- emplaceImpl (try_push / try_emplace) of value v
  | eLoadT (v : Int)
  | eLoadSeq (v t : Int)
  | eCas (v t : Int)
  | eWrite (v t : Int)
  | ePub (t : Int)
  -- try_pop variants
  | oLoadH
  | oLoadT (h : Int)
  | oLoadSeq (h : Int)
  | oCas (h : Int)
  | oTake (h : Int)
  | oPub (h v : Int)
  -- try_push_batch(vs) (already truncated to K elements)
  | bLoadT (vs : List Int)
  | bSeq (vs : List Int) (t : Int) (i : Nat)
  | bCas (vs : List Int) (t : Int) (avail : Nat)
  | bWrite (vs : List Int) (t : Int) (i avail : Nat)
  | bPub (vs : List Int) (t : Int) (i avail : Nat)
  -- empty / full / size / destructor: load head, load tail
  | qLoadH (what : Nat)
  | qLoadT (what : Nat) (h : Int)
  deriving Repr, DecidableEq

def op (K : Nat) : L → Option AOp
  | .idle => none
  | .done _ => none
  | .eLoadT _ => some (.load 1)
  | .eLoadSeq _ t => some (.load (seqF K t))
  | .eCas _ t => some (.cas 1 t (t + 1))
  | .eWrite v t => some (.store (dataF K t) v)
  | .ePub t => some (.store (seqF K t) (t + 1))
  | .oLoadH => some (.load 0)
  | .oLoadT _ => some (.load 1)
  | .oLoadSeq h => some (.load (seqF K h))
  | .oCas h => some (.cas 0 h (h + 1))
  | .oTake h => some (.xchg (dataF K h) movedFrom)
  | .oPub h _ => some (.store (seqF K h) (h + K))
  | .bLoadT _ => some (.load 1)
  | .bSeq _ t i => some (.load (seqF K (t + i)))
  | .bCas _ t avail => some (.cas 1 t (t + avail))
  | .bWrite vs t i _ => some (.store (dataF K (t + i)) (vs.getD i 0))
  | .bPub _ t i _ => some (.store (seqF K (t + i)) (t + i + 1))
  | .qLoadH _ => some (.load 0)
  | .qLoadT _ _ => some (.load 1)

def cont (K : Nat) : L → Int → L
  | .idle, _ => .idle
  | .done r, _ => .done r
  | .eLoadT v, r => .eLoadSeq v r
  | .eLoadSeq v t, r => if r - t = 0 then .eCas v t else .done [0]
  | .eCas v t, r => if r = t then .eWrite v t else .done [0]
  | .eWrite _ t, _ => .ePub t
  | .ePub _, _ => .done [1]
  | .oLoadH, r => .oLoadT r
  | .oLoadT h, r => if h = r then .done [0] else .oLoadSeq h
  | .oLoadSeq h, r => if r - (h + 1) = 0 then .oCas h else .done [0]
  | .oCas h, r => if r = h then .oTake h else .done [0]
  | .oTake h, r => .oPub h r
  | .oPub _ v, _ => .done [1, v]
  | .bLoadT vs, r => .bSeq vs r 0
  | .bSeq vs t i, r =>
    if r - (t + i) = 0 then
      if i + 1 < vs.length then .bSeq vs t (i + 1) else .bCas vs t (i + 1)
    else if i = 0 then .done [0] else .bCas vs t i
  | .bCas vs t avail, r => if r = t then .bWrite vs t 0 avail else .done [0]
  | .bWrite vs t i avail, _ => .bPub vs t i avail
  | .bPub vs t i avail, _ => if i + 1 < avail then .bWrite vs t (i + 1) avail else .done [avail]
  | .qLoadH w, r => .qLoadT w r
  | .qLoadT w h, r =>
    match w with
    | 0 => .done [if h = r then 1 else 0]            -- empty()
    | 1 => .done [if r - h ≥ (K : Int) then 1 else 0] -- full()
    | 2 => .done [r - h]                              -- size()
    | _ => .done []                                   -- destructor

def idleOrDone : L → Bool
  | .idle => true
  | .done _ => true
  | _ => false

def isEntry (K : Nat) : L → Bool
  | .eLoadT v => decide (0 ≤ v)
  | .bLoadT vs => (vs.all fun v => decide (0 ≤ v)) && decide (0 < vs.length) && decide (vs.length ≤ K)
  | .oLoadH | .qLoadH _ => true
  | _ => false

def proto (K : Nat) : Proto :=
  { L := L, op := op K, cont := cont K, entry := fun l l' => idleOrDone l && isEntry K l' }

def parseIdx (pre s : String) : Option Nat :=
  if s.startsWith pre then (s.drop pre.length).toNat? else none

def binding (K : Nat) : Trace.Binding (proto K) :=
  { fieldOf := fun s =>
      if s = "head" then some 0 else if s = "tail" then some 1 else
      match parseIdx "seq" s with
      | some i => some (2 + 2 * i)
      | none => match parseIdx "data" s with
        | some i => some (3 + 2 * i)
        | none => none
    bits := fun f => if f < 2 ∨ f % 2 = 0 then 64 else 32
    mkCall := fun name args _ =>
      match name, args with
      | "try_push", [v] => some (.eLoadT v)
      | "try_pop", [] => some .oLoadH
      | "try_push_batch", vs => if vs = [] then none else some (.bLoadT (vs.take K))
      | "empty", [] => some (.qLoadH 0)
      | "full", [] => some (.qLoadH 1)
      | "size", [] => some (.qLoadH 2)
      | "dtor", [] => some (.qLoadH 3)
      | _, _ => none
    retOf := fun l => match l with
      | .done r => some r
      | _ => none
    -- declared orders of mpmc_ring_buffer.h: the slot sequence number is read with acquire and
    -- published with release; the position counters are relaxed
    reqOrder := fun l => match l with
      | .eLoadSeq _ _ => 2 | .ePub _ => 3 | .oLoadSeq _ => 2 | .oPub _ _ => 3
      | .bSeq _ _ _ => 2 | .bPub _ _ _ _ => 3
      | _ => 0 }

/-- initial memory: head = tail = 0, `seq[i] = i`, data slots hold the moved-from marker -/
def initMem (_K : Nat) : Fld → Int := fun f =>
  if f < 2 then 0 else if f % 2 = 0 then ((f - 2) / 2 : Nat) else movedFrom

def init (K : Nat) : State (proto K) := initState (proto K) L.idle (initMem K)

end Dispenso.Mpmc
