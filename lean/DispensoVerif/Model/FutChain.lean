import DispensoVerif.Core.Trace
/-
Model of the then-chain of a `dispenso::Future` (`FutureImplBase::addToThenChainOrExecute`,
`tryExecuteThenChain`, `run(int)`, dispenso/detail/future_impl.h) — C19.  One model action per
atomic operation of the code, in the generic interleaving semantics `Core/Conc.lean`.

Fields
  0  `status_` of the antecedent (0 kNotStarted, 1 kRunning, 2 kReady)
  1  `thenChain_`: the head of the Treiber stack of links.  Links are never re-pushed and a link's
     `next` never changes after its push, so "same head pointer" and "same list" coincide; the
     model stores the code `enc l` of the whole list `l` of continuation ids in this cell (the trace
     comparison treats the field as opaque: pointer values are not compared, the kind and the
     success / failure of every operation are)
  2·k+10  the dispatch counter of continuation `k` (the harness's schedulable bumps it when the
          link's `invoke` — `schedulable->schedule(impl->makeOnceFunction())` — is called)
  2·k+11  ghost token: continuation id `k` has been used by a `then()` call (0 / 1)
The plain accesses to a link (`link->next = …`, reading `next` while walking a detached list) are
thread-local in the model: a thread carries the code / the list it works on.
Core Lean only.
-/
namespace Dispenso.FutChain
open Dispenso.Conc

def intMax : Nat := 2147483647

/-! ### lists of continuation ids as numbers: `enc (k :: l) = 2^k · (2 · enc l + 1)` -/

def enc : List Nat → Nat
  | [] => 0
  | k :: l => 2 ^ k * (2 * enc l + 1)

def bump : List Nat → List Nat
  | [] => []
  | k :: l => (k + 1) :: l

def decF : Nat → Nat → List Nat
  | 0, _ => []
  | f + 1, n => if n = 0 then [] else if n % 2 = 0 then bump (decF f (n / 2)) else 0 :: decF f (n / 2)

/-- decode (left inverse of `enc`, see `Proofs/FutChain.lean`) -/
def dec (c : Int) : List Nat := decF c.toNat c.toNat

def fDisp (k : Nat) : Fld := 2 * k + 10
def fTok (k : Nat) : Fld := 2 * k + 11

inductive PC where
  | idle
  | done (r : Int)
  | bad
  -- run(int) of the antecedent (the scheduled closure, or a waiter running it inline)
  | cpCas
  | cpStore
  | cpWake
  -- tryExecuteThenChain()
  | teLoad
  | teCas (h : Int)
  | twInvoke (cur : Nat) (rest : List Nat)   -- `head->invoke(impl, schedulable)`
  -- Future::wait(): waitCommon(true), then CompletionEventImpl::wait
  | wcLoad
  | wcCas                                    -- `run(s)` inline: the waiter's CAS
  | evLoad
  | evWait (cur : Int)
  -- addToThenChainOrExecute (continuation `k`)
  | adTake (k : Nat)
  | adLoad (k : Nat)
  | adDisp (k : Nat)                         -- already ready: schedule directly
  | adNext (k : Nat)                         -- `link->next = thenChain_.load()`
  | adCas (k : Nat) (h : Int)                -- `thenChain_.compare_exchange_weak(link->next, link)`
  | adRe (k : Nat)                           -- the post-push re-check of the status
  deriving Repr, DecidableEq

abbrev L := PC

def op : L → Option AOp
  | .idle | .done _ | .bad => none
  | .cpCas => some (.cas 0 0 1)
  | .cpStore => some (.store 0 2)
  | .cpWake => some (.fwake 0 intMax)
  | .teLoad => some (.load 1)
  | .teCas h => some (.cas 1 h 0)
  | .twInvoke cur _ => some (.fadd (fDisp cur) 1)
  | .wcLoad => some (.load 0)
  | .wcCas => some (.cas 0 0 1)
  | .evLoad => some (.load 0)
  | .evWait cur => some (.fwait 0 cur false)
  | .adTake k => some (.cas (fTok k) 0 1)
  | .adLoad _ => some (.load 0)
  | .adDisp k => some (.fadd (fDisp k) 1)
  | .adNext _ => some (.load 1)
  | .adCas k h => some (.cas 1 h (enc (k :: dec h)))
  | .adRe _ => some (.load 0)

/-- continue walking a detached list -/
def walk : List Nat → PC
  | [] => .done 0
  | k :: l => .twInvoke k l

def cont : L → Int → L
  | .idle, _ => .idle
  | .done r, _ => .done r
  | .bad, _ => .bad
  | .cpCas, r => if r = 0 then .cpStore else .done 0
  | .cpStore, _ => .cpWake
  | .cpWake, _ => .teLoad
  -- `head = load(); while (head) { if (CAS(head, nullptr)) { walk } }`
  | .teLoad, r => if r = 0 then .done 0 else .teCas r
  | .teCas h, r => if r = h then walk (dec h) else if r = 0 then .done 0 else .teCas r
  | .twInvoke _ rest, _ => walk rest
  | .wcLoad, r => if r = 2 then .done 0 else if r = 0 then .wcCas else .evLoad
  | .wcCas, r => if r = 0 then .cpStore else .evLoad
  | .evLoad, r => if r = 2 then .done 0 else .evWait r
  | .evWait _, _ => .evLoad
  | .adTake k, r => if r = 0 then .adLoad k else .bad
  | .adLoad k, r => if r = 2 then .adDisp k else .adNext k
  | .adDisp _, _ => .done 0
  | .adNext k, r => .adCas k r
  | .adCas k h, r => if r = h then .adRe k else .adCas k r
  | .adRe _, r => if r = 2 then .teLoad else .done 0

def idleOrDone : PC → Bool
  | .idle | .done _ => true
  | _ => false

def isEntry : PC → Bool
  | .cpCas | .wcLoad | .adTake _ => true
  | _ => false

def proto : Proto :=
  { L := L, op := op, cont := cont, entry := fun l l' => idleOrDone l && isEntry l' }

def init : State proto := initState proto PC.idle (fun _ => 0)

def fieldOf (s : String) : Option Fld :=
  if s = "status" then some 0 else if s = "chain" then some 1
  else if s.startsWith "disp+" then (s.drop 5).toNat?.map fun off => fDisp (off / 4)
  else if s = "disp" then some (fDisp 0) else none

def binding : Trace.Binding proto :=
  { fieldOf := fieldOf
    bits := fun f => if f = 1 then 64 else 32
    mkCall := fun name args _ =>
      match name, args with
      | "run", [] => some .cpCas
      | "wait", [] => some .wcLoad
      | "then", [k] => if 0 ≤ k then some (.adTake k.toNat) else none
      | _, _ => none
    retOf := fun l => match l with
      | .done r => some [r]
      | _ => none
    silentFld := fun f => decide (11 ≤ f ∧ f % 2 = 1)
    opaqueFld := fun f => f = 1
    reqOrder := fun l => match l with
      | .cpCas => 4 | .wcCas => 4 | .cpStore => 3 | .teLoad => 2 | .teCas _ => 4 | .wcLoad => 2 | .evLoad => 2
      | .adLoad _ => 2 | .adNext _ => 2 | .adCas _ _ => 4 | .adRe _ => 2
      | _ => 0 }

end Dispenso.FutChain
