import DispensoVerif.Core.Trace
/-
Model of `dispenso::AsyncRequest<T>` (dispenso/async_request.h) — C24.
Field 0: `state_` (0 kNone, 1 kNeedsUpdate, 2 kUpdating, 3 kReady). Field 1: the stored object
`obj_`; the harness instantiates T with a payload whose only member is an atomic, so constructing
the object is a store of its tag and moving it out is an exchange with the moved-from marker -1.
`getUpdate` is the repaired version (claims kReady→kUpdating by CAS before moving the object out);
`contOld`/`opOld` keep the original load / move / store sequence to state the witness of the defect.
Core Lean only.
-/
namespace Dispenso.AsyncReq
open Dispenso.Conc

def kNone : Int := 0
def kNeedsUpdate : Int := 1
def kUpdating : Int := 2
def kReady : Int := 3
def movedFrom : Int := -1

inductive L where
  | idle
  | done (ok : Int) (val : Int)
  | ruCas                       -- requestUpdate
  | urLoad                      -- updateRequested
  | teCas (v : Int)             -- tryEmplaceUpdate(v)
  | teWrite (v : Int)
  | tePublish
  | guCas                       -- getUpdate (repaired): CAS kReady -> kUpdating
  | guTake
  | guReset (v : Int)
  | guLoadOld                   -- getUpdate (original): load, move, store
  deriving Repr, DecidableEq

def op : L → Option AOp
  | .idle => none
  | .done _ _ => none
  | .ruCas => some (.cas 0 kNone kNeedsUpdate)
  | .urLoad => some (.load 0)
  | .teCas _ => some (.cas 0 kNeedsUpdate kUpdating)
  | .teWrite v => some (.store 1 v)
  | .tePublish => some (.store 0 kReady)
  | .guCas => some (.cas 0 kReady kUpdating)
  | .guTake => some (.xchg 1 movedFrom)
  | .guReset _ => some (.store 0 kNone)
  | .guLoadOld => some (.load 0)

def cont : L → Int → L
  | .idle, _ => .idle
  | .done a b, _ => .done a b
  | .ruCas, _ => .done 0 0
  | .urLoad, r => .done (if r = kNeedsUpdate then 1 else 0) 0
  | .teCas v, r => if r = kNeedsUpdate then .teWrite v else .done 0 0
  | .teWrite _, _ => .tePublish
  | .tePublish, _ => .done 1 0
  | .guCas, r => if r = kReady then .guTake else .done 0 0
  | .guTake, r => .guReset r
  | .guReset v, _ => .done 1 v
  | .guLoadOld, r => if r = kReady then .guTake else .done 0 0

def idleOrDone : L → Bool
  | .idle => true
  | .done _ _ => true
  | _ => false

/-- calls of the repaired class; emplaced tags are non-negative -/
def isEntry : L → Bool
  | .ruCas | .urLoad | .guCas => true
  | .teCas v => decide (0 ≤ v)
  | _ => false

def proto : Proto :=
  { L := L, op := op, cont := cont, entry := fun l l' => idleOrDone l && isEntry l' }

/-- the original `getUpdate` (load instead of CAS) -/
def isEntryOld : L → Bool
  | .ruCas | .urLoad | .guLoadOld => true
  | .teCas v => decide (0 ≤ v)
  | _ => false

def protoOld : Proto :=
  { L := L, op := op, cont := cont, entry := fun l l' => idleOrDone l && isEntryOld l' }

def binding : Trace.Binding proto :=
  { fieldOf := fun s => if s = "state" then some 0 else if s = "obj" then some 1 else none
    bits := fun _ => 32
    mkCall := fun name args _ =>
      match name, args with
      | "requestUpdate", [] => some .ruCas
      | "updateRequested", [] => some .urLoad
      | "tryEmplaceUpdate", [v] => some (.teCas v)
      | "getUpdate", [] => some .guCas
      | _, _ => none
    retOf := fun l => match l with
      | .done a b => some [a, b]
      | _ => none
    -- declared orders of async_request.h
    reqOrder := fun l => match l with
      | .ruCas => 4 | .urLoad => 2 | .teCas _ => 4 | .tePublish => 3 | .guCas => 4 | .guReset _ => 3
      | _ => 0 }

def init : State proto := initState proto L.idle (fun f => if f = 1 then movedFrom else 0)

/-- values taken out by `getUpdate` and values put in by `tryEmplaceUpdate`, in history order -/
def takes (evs : List Ev) : List Int :=
  evs.filterMap fun e => match e.op with
    | .xchg 1 _ => some e.res
    | _ => none

def puts (evs : List Ev) : List Int :=
  evs.filterMap fun e => match e.op with
    | .store 1 v => some v
    | _ => none

end Dispenso.AsyncReq
