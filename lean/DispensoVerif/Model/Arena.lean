import DispensoVerif.Core.Trace
/-
Model of `dispenso::ConcurrentObjectArena<T>` (dispenso/concurrent_object_arena.h) — C37.
Two layers:
 * `Seq`: the arena as a value, for the sequential operations (construction, grow_by, element
   access, copy construction, copy/move assignment, swap): position, allocated size, buffer table
   bookkeeping (`buffersPos_`, `buffersSize_`) and the element values;
 * `proto B`: concurrent `grow_by` at one action per atomic operation. Fields: 0 `pos_`,
   1 `allocatedSize_`, 2 `buffers_` (a pointer: opaque in traces), 3 `resizeMutex_` (0 free / 1 held;
   no trace events), 4 `buffersSize_`, 5 `buffersPos_` (plain members touched only under the mutex).
`B` is `kBufferSize` (a power of two).  Core Lean only.
-/
namespace Dispenso.Arena

/-! ### sequential layer -/
namespace Seq

structure Arena where
  bufSize : Nat          -- kBufferSize
  pos : Nat
  allocated : Nat
  buffersPos : Nat
  buffersSize : Nat
  items : List Int       -- element values, length = pos
  deriving Repr, DecidableEq

def defaultElem : Int := 7

/-- kLog2BuffSize = ceil(log2(minBuffSize)) -/
def ceilLog2 (n : Nat) : Nat := if 2 ^ Nat.log2 n = n then Nat.log2 n else Nat.log2 n + 1

/-- allocateBuffer(): bookkeeping of the buffer table -/
def allocateBuffer (a : Arena) : Arena :=
  if a.buffersPos < a.buffersSize then { a with buffersPos := a.buffersPos + 1 }
  else { a with buffersSize := (if a.buffersSize = 0 then 2 else a.buffersSize * 2), buffersPos := a.buffersPos + 1 }

/-- the allocation loop of grow_by: `while (oldPos + delta >= curSize) { allocateBuffer(); curSize += kBufferSize }` -/
def growAlloc (a : Arena) (target : Nat) : Nat → Arena
  | 0 => a
  | fuel + 1 =>
    if target ≥ a.allocated then growAlloc { allocateBuffer a with allocated := a.allocated + a.bufSize } target fuel
    else a

def growBy (a : Arena) (delta : Nat) : Arena × Nat :=
  let a1 := growAlloc a (a.pos + delta) (a.pos + delta + 2)
  ({ a1 with pos := a1.pos + delta, items := a1.items ++ List.replicate delta defaultElem }, a.pos)

def mk (minBuf initial : Nat) : Arena :=
  let B := 2 ^ ceilLog2 minBuf
  let a0 : Arena := { bufSize := B, pos := 0, allocated := 0, buffersPos := 0, buffersSize := 0, items := [] }
  let a1 := { allocateBuffer a0 with allocated := B }
  if initial > 0 then (growBy a1 initial).1 else a1

structure St where
  arenas : List (Nat × Arena)
  next : Nat
  buffersLive : Int      -- element buffers allocated and not freed
  deriving Repr

def St.init : St := { arenas := [], next := 0, buffersLive := 0 }

inductive Op where
  | mk (minBuf initial : Nat)
  | growBy (o delta : Nat)
  | set (o idx : Nat) (v : Int)
  | copyCtor (src : Nat)
  | moveCtor (src : Nat)
  | copyAssign (dst src : Nat)
  | moveAssign (dst src : Nat)
  | swap (a b : Nat)
  | destroy (o : Nat)
  | query (o : Nat)
  deriving Repr

def get (s : St) (o : Nat) : Option Arena := (s.arenas.find? (·.1 = o)).map (·.2)
def put (s : St) (o : Nat) (a : Arena) : St := { s with arenas := s.arenas.map fun p => if p.1 = o then (p.1, a) else p }
def add (s : St) (a : Arena) : St := { s with arenas := s.arenas ++ [(s.next, a)], next := s.next + 1 }

/-- the empty shell a move constructor leaves behind (all fields zero, no buffers) -/
def emptyShell : Arena := { bufSize := 0, pos := 0, allocated := 0, buffersPos := 0, buffersSize := 0, items := [] }

/-- reply: size, capacity, numBuffers, returned position (or -1), size of the last buffer, buffers alive, contents -/
structure Out where
  size : Nat
  cap : Nat
  nbuf : Nat
  ret : Int
  lastBuf : Nat
  buffersLive : Int
  items : List Int
  deriving Repr

def lastBufSize (a : Arena) : Nat := if a.buffersPos = 0 then 0 else a.pos - a.bufSize * (a.buffersPos - 1)

def outOf (s : St) (a : Arena) (ret : Int) : Option Out :=
  some { size := a.pos, cap := a.allocated, nbuf := a.buffersPos, ret := ret, lastBuf := lastBufSize a,
         buffersLive := s.buffersLive, items := a.items }

def step (s : St) : Op → St × Option Out
  | .mk minBuf initial =>
    if minBuf = 0 then (s, none) else
    let a := mk minBuf initial
    let s' := add { s with buffersLive := s.buffersLive + a.buffersPos } a
    (s', outOf s' a (-1))
  | .growBy o delta =>
    match get s o with
    | some a =>
      if a.bufSize = 0 then (s, none) else
      let (a', old) := growBy a delta
      let s' := put { s with buffersLive := s.buffersLive + (a'.buffersPos - a.buffersPos : Nat) } o a'
      (s', outOf s' a' old)
    | none => (s, none)
  | .set o idx v =>
    match get s o with
    | some a =>
      if idx < a.pos then
        let a' := { a with items := a.items.set idx v }
        let s' := put s o a'
        (s', outOf s' a' (-1))
      else (s, none)
    | none => (s, none)
  | .copyCtor src =>
    match get s src with
    | some a => let s' := add { s with buffersLive := s.buffersLive + a.buffersPos } a; (s', outOf s' a (-1))
    | none => (s, none)
  | .moveCtor src =>
    match get s src with
    | some a => let s' := add (put s src emptyShell) a; (s', outOf s' a (-1))
    | none => (s, none)
  | .copyAssign dst src =>
    match get s dst, get s src with
    | some d, some a =>
      -- copy(other); swap(*this, copy); the old contents die with the temporary
      let s' := put { s with buffersLive := s.buffersLive + a.buffersPos - d.buffersPos } dst a
      (s', outOf s' a (-1))
    | _, _ => (s, none)
  | .moveAssign dst src =>
    match get s dst, get s src with
    | some d, some a =>
      if dst = src then (s, outOf s d (-1)) else
      let s' := put (put s dst a) src d
      (s', outOf s' a (-1))
    | _, _ => (s, none)
  | .swap x y =>
    match get s x, get s y with
    | some a, some b =>
      if x = y then (s, outOf s a (-1)) else
      let s' := put (put s x b) y a
      (s', outOf s' b (-1))
    | _, _ => (s, none)
  | .destroy o =>
    match get s o with
    | some a =>
      let s' := { s with arenas := s.arenas.filter (·.1 ≠ o), buffersLive := s.buffersLive - a.buffersPos }
      (s', some { size := 0, cap := 0, nbuf := 0, ret := -1, lastBuf := 0, buffersLive := s'.buffersLive, items := [] })
    | none => (s, none)
  | .query o =>
    match get s o with
    | some a => (s, outOf s a (-1))
    | none => (s, none)

def runOps (s : St) : List Op → St
  | [] => s
  | o :: os => runOps (step s o).1 os

end Seq

/-! ### concurrent layer: grow_by, operator[], size, capacity -/
open Dispenso.Conc

inductive L where
  | idle
  | done (ret : List Int)
  | gLoadPos (d : Int)
  | gLoadAlloc (d old : Int)
  | gLock (d old : Int)
  | gLoadAlloc2 (d old : Int)
  | gLdBP (d old cur : Int)
  | gLdBS (d old cur bp : Int)
  | gTblLoad (d old cur bp bs : Int)
  | gSetBS (d old cur bp bs : Int)
  | gIncBP (d old cur bp : Int) (grew : Bool)
  | gTblStore (d old cur : Int)
  | gStoreAlloc (d old cur : Int)
  | gUnlock (d old : Int)
  | gCas (d old : Int)
  | gConstruct (old b endB : Int)
  | ixLoad
  | szLoad
  | cpLoad
  | dtLoad      -- destructor: loads the table pointer, frees the buffers
  deriving Repr, DecidableEq

def op (B : Nat) : L → Option AOp
  | .idle => none
  | .done _ => none
  | .gLoadPos _ => some (.load 0)
  | .gLoadAlloc _ _ => some (.load 1)
  | .gLock _ _ => some (.cas 3 0 1)
  | .gLoadAlloc2 _ _ => some (.load 1)
  | .gLdBP _ _ _ => some (.load 5)
  | .gLdBS _ _ _ _ => some (.load 4)
  | .gTblLoad _ _ _ _ _ => some (.load 2)
  | .gSetBS _ _ _ _ bs => some (.store 4 (if bs = 0 then 2 else bs * 2))
  | .gIncBP _ _ _ bp _ => some (.store 5 (bp + 1))
  | .gTblStore _ _ _ => some (.store 2 0)
  | .gStoreAlloc _ _ cur => some (.store 1 (cur + B))
  | .gUnlock _ _ => some (.store 3 0)
  | .gCas d old => some (.cas 0 old (old + d))
  | .gConstruct _ _ _ => some (.load 2)
  | .ixLoad => some (.load 2)
  | .szLoad => some (.load 0)
  | .cpLoad => some (.load 1)
  | .dtLoad => some (.load 2)

def cont (B : Nat) : L → Int → L
  | .idle, _ => .idle
  | .done r, _ => .done r
  | .gLoadPos d, r => .gLoadAlloc d r
  | .gLoadAlloc d old, r => if old + d ≥ r then .gLock d old else .gCas d old
  | .gLock d old, r => if r = 0 then .gLoadAlloc2 d old else .gLock d old
  | .gLoadAlloc2 d old, r => if old + d ≥ r then .gLdBP d old r else .gUnlock d old
  | .gLdBP d old cur, r => .gLdBS d old cur r
  | .gLdBS d old cur bp, r => .gTblLoad d old cur bp r
  | .gTblLoad d old cur bp bs, _ => if bp < bs then .gIncBP d old cur bp false else .gSetBS d old cur bp bs
  | .gSetBS d old cur bp _, _ => .gIncBP d old cur bp true
  | .gIncBP d old cur _ grew, _ => if grew then .gTblStore d old cur else .gStoreAlloc d old cur
  | .gTblStore d old cur, _ => .gStoreAlloc d old cur
  | .gStoreAlloc d old cur, _ =>
    let cur' := cur + B
    if old + d ≥ cur' then .gLdBP d old cur' else .gUnlock d old
  | .gUnlock d old, _ => .gCas d old
  | .gCas d old, r =>
    if r = old then .gConstruct old (old / B) ((old + d) / B) else .gLoadAlloc d r
  | .gConstruct old b endB, _ => if b < endB then .gConstruct old (b + 1) endB else .done [old]
  | .ixLoad, _ => .done []
  | .szLoad, r => .done [r]
  | .cpLoad, r => .done [r]
  | .dtLoad, _ => .done []

def idleOrDone : L → Bool
  | .idle => true
  | .done _ => true
  | _ => false

def isEntry : L → Bool
  | .gLoadPos d => decide (0 ≤ d)
  | .ixLoad | .szLoad | .cpLoad | .dtLoad => true
  | _ => false

def proto (B : Nat) : Proto :=
  { L := L, op := op B, cont := cont B, entry := fun l l' => idleOrDone l && isEntry l' }

def binding (B : Nat) : Trace.Binding (proto B) :=
  { fieldOf := fun s => if s = "pos" then some 0 else if s = "alloc" then some 1 else if s = "buffers" then some 2 else none
    bits := fun _ => 64
    mkCall := fun name args _ =>
      match name, args with
      | "grow_by", [d] => some (.gLoadPos d)
      | "index", [] => some .ixLoad
      | "size", [] => some .szLoad
      | "capacity", [] => some .cpLoad
      | "dtor", [] => some .dtLoad
      | _, _ => none
    retOf := fun l => match l with
      | .done r => some r
      | _ => none
    silentFld := fun f => decide (3 ≤ f)
    opaqueFld := fun f => decide (f = 2)
    -- declared orders of concurrent_object_arena.h
    reqOrder := fun l => match l with
      | .gLoadAlloc _ _ => 2 | .gTblLoad _ _ _ _ _ => 2 | .gTblStore _ _ _ => 3 | .gStoreAlloc _ _ _ => 3
      | .gCas _ _ => 3 | .gConstruct _ _ _ => 2 | .ixLoad => 2 | .dtLoad => 2
      | _ => 0 }

/-- state right after `ConcurrentObjectArena(B)`: one buffer allocated, table of two entries -/
def init (B : Nat) : State (proto B) :=
  initState (proto B) L.idle (fun f => if f = 1 then B else if f = 4 then 2 else if f = 5 then 1 else 0)

end Dispenso.Arena
