/-
Event-level model of `dispenso::ThreadPool` + `TaskSet` / `ConcurrentTaskSet`
(dispenso/thread_pool.{h,cpp}, dispenso/task_set.{h,cpp}, dispenso/detail/task_set_impl.h)
— C01, C02, C03 (safety part), C04, C05, C08, C47.

The model is a ledger automaton over the events that (a) the guarded observation hooks
(`DISPENSO_VERIF_HOOK`, dispenso/detail/verif_hooks.h) emit at the points where the code touches
the shared scheduling state and (b) the harness emits around its API calls and inside its task
bodies.  `step` is partial: an event that the ledger does not allow in the current state is
rejected (`none`).  The trace acceptor of the driver is this same `step`, so a run of the real
code under the deterministic scheduler is accepted iff every event it produced was enabled;
the theorems (Props/C01 …) hold for every accepted trace, of any length, any number of threads,
sets and tasks.

What is tracked
 * per thread a stack of frames: API calls in progress (`sched`, `bulk`, `wait`, …) and running
   task bodies (`run`); a frame carries what the call still owes: tasks reserved (submitted or
   generated but not yet placed), `workRemaining_` credits (counted, not yet pushed), task-set
   credits (`outstandingTaskCount_` incremented, task not yet placed), tasks taken from a tier
   whose `workRemaining_` decrement is still due, the cancel-guard state, a due `ts.dec`;
 * the tiers (central queue, per-thread rings, steal rings) as a multiset of tier codes, one entry
   per queued task, and the multiset of the sets those queued tasks belong to (set 0 = tasks handed
   to the pool directly);
 * `pending` = `workRemaining_`, `outstanding s` = `outstandingTaskCount_` of set `s`;
 * which task ids were submitted, whose bodies began / ended; per set how many packaged tasks
   were skipped because of cancellation; the exception state machine of each set.
Task identity: a task taken from a tier is identified by the body that then begins (`begin id`),
or — when the packaged wrapper skips a cancelled body — only by its set (`ts.guard`).
Core Lean only.
-/
namespace Dispenso.Sched

/-- tier codes: 0 = central queue, 2r+1 = ring r, 2s+2 = steal ring s -/
def central : Nat := 0
def ringCode (r : Nat) : Nat := 2 * r + 1
def stealCode (s : Nat) : Nat := 2 * s + 2
def isRing (c : Nat) : Bool := c % 2 == 1
def ringIdx (c : Nat) : Nat := (c - 1) / 2

inductive FK where
  | base      -- bottom of every thread's stack (worker loop / external thread outside any call)
  | sched     -- a single-task submission call
  | bulk      -- a bulk submission call
  | wait      -- wait() / tryWait() / task-set destructor
  | cancel
  | resize
  | pooldtor
  | run       -- a task body
  deriving DecidableEq, Repr, Inhabited

/-- what the next body-related event of a frame may be -/
inductive Pend where
  | none
  | took                 -- a task was taken from a tier; not yet identified
  | guarded (s : Nat)    -- packaged task of set `s` taken from a tier passed its cancel guard
  | inlPool              -- the pool decided to run the reserved task on the caller
  | inlGuarded (s : Nat) -- … and its package wrapper passed the cancel guard
  | inlTs                -- the task set decided to run the reserved task on the caller, unpackaged
  deriving DecidableEq, Repr, Inhabited

structure Frame where
  kind : FK := .base
  set : Nat := 0                   -- set of the call / of the running task (0 = pool)
  id : Nat := 0                    -- run: task id
  fq : Bool := false               -- sched/bulk: ForceQueuingTag
  resv : List (Nat × Nat) := []    -- (id, set) reserved by this call, oldest first
  credit : Nat := 0                -- workRemaining_ credits
  tsCredit : Nat := 0              -- outstandingTaskCount_ credits (of `set`)
  unacc : Nat := 0                 -- taken tasks whose workRemaining_ decrement is due
  pend : Pend := .none
  pendDec : Option Nat := none     -- a packaged task of that set ended or was skipped: ts.dec due
  packaged : Bool := false         -- run: the body runs inside a package wrapper
  guardOK : Bool := false          -- sched/bulk: a cancel check of the set passed in this call
  zeroSeen : Bool := false         -- wait: the outstanding counter was observed to be zero
  rethrown : Bool := false         -- wait: testAndResetException rethrew in this call
  zeroPath : Bool := false         -- bulk: the call found the pool without threads and runs all its tasks inline
  deriving Repr, Inhabited

inductive Ev where
  -- harness
  | callSched (set id : Nat) (fq : Bool)
  | retSched
  | callBulk (set : Nat) (fq : Bool)
  | gen (id : Nat)
  | retBulk
  | begin_ (id : Nat)
  | end_ (id : Nat)
  | callWait (set : Nat)
  | retWait (set : Nat) (done : Bool) (exc : Bool)   -- done: the call reports completion
  | callCancel (set : Nat)
  | retCancel (set : Nat)
  | callResize
  | retResize
  | callPoolDtor
  | retPoolDtor
  | quiesce (v : Int)                                -- harness read workRemaining_ at a quiescent point
  -- hooks
  | inline0 | inlinePool
  | count (d : Int)
  | push (tier n : Nat)
  | take (tier : Nat)
  | rings (n : Nat)
  | ctor (n : Nat)
  | resizeBegin
  | resizeEnd (n : Nat)
  | dtorBegin | dtorEnd
  | tsInc (set n : Nat)
  | tsDec (set : Nat)
  | tsGuard (set : Nat) (cancelled : Bool) (site : Nat)  -- site 0: package wrapper, 1: bulk loop, 2: schedule()
  | tsInline (set : Nat)
  | tsCancel (set : Nat)
  | tsZero (set : Nat)
  | tsCapture (set : Nat)
  | tsRethrow (set : Nat)
  deriving Repr

structure St where
  tids : List Nat := []
  thr : Nat → List Frame := fun _ => []      -- innermost frame first; [] stands for [base]
  tierItems : List Nat := []                 -- one tier code per queued task
  queuedSets : List Nat := []                -- one set id per queued, identified-by-set task
  pending : Int := 0
  outstanding : Nat → Int := fun _ => 0
  cancelled : List Nat := []
  captured : List Nat := []                  -- sets holding a captured, not yet rethrown exception
  sub : List (Nat × Nat) := []               -- (id, set)
  begun : List Nat := []
  ended : List Nat := []
  skipped : Nat → Nat := fun _ => 0          -- packaged tasks skipped by the cancel guard
  dropped : Nat → Nat := fun _ => 0          -- tasks dropped by schedule() on a cancelled set
  nThreads : Nat := 0
  nRings : Nat := 0
  resizing : Bool := false
  destroyed : Bool := false
  captures : Nat → Nat := fun _ => 0         -- per set: exceptions captured / rethrown so far
  rethrows : Nat → Nat := fun _ => 0

def St.init (nThreads : Nat) : St := { nThreads := nThreads, nRings := nThreads }

def upd {α} (f : Nat → α) (k : Nat) (v : α) : Nat → α := fun x => if x = k then v else f x

/-- the frame stack of a thread, with the implicit base frame made explicit -/
def St.stack (s : St) (t : Nat) : List Frame :=
  match s.thr t with
  | [] => [{}]
  | l => l

def St.top (s : St) (t : Nat) : Frame := (s.stack t).headD {}
def St.below (s : St) (t : Nat) : List Frame := (s.stack t).tail

def St.setStack (s : St) (t : Nat) (l : List Frame) : St :=
  { s with thr := upd s.thr t l, tids := if t ∈ s.tids then s.tids else t :: s.tids }

def St.setTop (s : St) (t : Nat) (f : Frame) : St := s.setStack t (f :: s.below t)
def St.pushF (s : St) (t : Nat) (f : Frame) : St := s.setStack t (f :: s.stack t)
def St.popF (s : St) (t : Nat) : St := s.setStack t (s.below t)

/-- a frame owes nothing any more -/
def Frame.settled (f : Frame) : Bool :=
  f.resv.isEmpty && f.credit == 0 && f.tsCredit == 0 && f.unacc == 0 && f.pend == .none && f.pendDec == none

def allFrames (s : St) : List Frame := s.tids.flatMap fun t => s.stack t

/-- nothing is queued, reserved, taken or unaccounted anywhere -/
def St.quiescent (s : St) : Bool :=
  s.tierItems.isEmpty && (allFrames s).all fun f => f.settled && f.kind != .run

/-- place the first `n` reserved tasks of the frame into a tier -/
def placeN (f : Frame) (n : Nat) : Option (Frame × List Nat) :=
  if n ≤ f.resv.length ∧ n ≤ f.credit then
    let moved := (f.resv.take n).map (·.2)
    let nts := (moved.filter (· ≠ 0)).length
    -- every moved task of a set is a packaged task of the set this call submits to
    if nts ≤ f.tsCredit ∧ moved.all (fun x => x == 0 || x == f.set) then
      some ({ f with resv := f.resv.drop n, credit := f.credit - n, tsCredit := f.tsCredit - nts }, moved)
    else none
  else none

def step (s : St) (t : Nat) (e : Ev) : Option St :=
  let f := s.top t
  match e with
  | .callSched set id fq =>
    if s.destroyed ∨ s.sub.any (·.1 == id) ∨ f.pend ≠ .none then none else
    some ({ s with sub := (id, set) :: s.sub }.pushF t { kind := .sched, set := set, id := id, fq := fq, resv := [(id, set)] })
  | .retSched =>
    if f.kind = .sched ∧ f.settled then some (s.popF t) else none
  | .callBulk set fq =>
    if s.destroyed ∨ f.pend ≠ .none then none else
    some (s.pushF t { kind := .bulk, set := set, fq := fq })
  | .gen id =>
    if f.kind = .bulk ∧ ¬ s.destroyed ∧ ¬ s.sub.any (·.1 == id) then
      some ({ s with sub := (id, f.set) :: s.sub }.setTop t { f with resv := f.resv ++ [(id, f.set)] })
    else none
  | .retBulk =>
    if f.kind = .bulk ∧ f.settled then some (s.popF t) else none
  | .begin_ id =>
    if id ∈ s.begun then none else
    match f.pend with
    | .took =>
      -- a task handed to the pool directly, taken from a tier
      if (id, 0) ∈ s.sub ∧ 0 ∈ s.queuedSets then
        some ({ s with begun := id :: s.begun, queuedSets := s.queuedSets.erase 0 }.setTop t { f with pend := .none, guardOK := false }
              |>.pushF t { kind := .run, set := 0, id := id })
      else none
    | .guarded st =>
      if (id, st) ∈ s.sub then
        some ({ s with begun := id :: s.begun }.setTop t { f with pend := .none, guardOK := false }
              |>.pushF t { kind := .run, set := st, id := id, packaged := true })
      else none
    | .inlPool =>
      -- pool-level inline of a direct task (a set's task would first pass its package guard)
      if f.resv = [(id, 0)] ∧ ¬ f.fq then
        some ({ s with begun := id :: s.begun }.setTop t { f with pend := .none, resv := [], guardOK := false }
              |>.pushF t { kind := .run, set := 0, id := id })
      else none
    | .inlGuarded st =>
      if f.resv = [(id, st)] ∧ ¬ f.fq ∧ 0 < f.tsCredit then
        some ({ s with begun := id :: s.begun }.setTop t { f with pend := .none, resv := [], tsCredit := f.tsCredit - 1, guardOK := false }
              |>.pushF t { kind := .run, set := st, id := id, packaged := true })
      else none
    | .inlTs =>
      if f.resv = [(id, f.set)] ∧ ¬ f.fq then
        some ({ s with begun := id :: s.begun }.setTop t { f with pend := .none, resv := [], guardOK := false }
              |>.pushF t { kind := .run, set := f.set, id := id })
      else none
    | .none => none
  | .end_ id =>
    if f.kind = .run ∧ f.id = id ∧ f.settled then
      let s1 := { s with ended := id :: s.ended }.popF t
      if f.packaged then
        let g := s1.top t
        if g.pendDec = none then some (s1.setTop t { g with pendDec := some f.set }) else none
      else some s1
    else none
  | .callWait set =>
    if f.pend ≠ .none then none else some (s.pushF t { kind := .wait, set := set })
  | .retWait set done exc =>
    if f.kind = .wait ∧ f.set = set ∧ f.settled ∧ (done → f.zeroSeen) ∧ (exc = f.rethrown)
        ∧ (done → set ∉ s.captured) then some (s.popF t) else none
  | .callCancel set => some (s.pushF t { kind := .cancel, set := set })
  | .retCancel set =>
    if f.kind = .cancel ∧ f.set = set ∧ set ∈ s.cancelled then some (s.popF t) else none
  | .callResize => if f.pend ≠ .none then none else some (s.pushF t { kind := .resize })
  | .retResize => if f.kind = .resize ∧ f.settled ∧ ¬ s.resizing then some (s.popF t) else none
  | .callPoolDtor => if f.pend ≠ .none then none else some (s.pushF t { kind := .pooldtor })
  | .retPoolDtor =>
    if f.kind = .pooldtor ∧ f.settled ∧ s.destroyed then some (s.popF t) else none
  | .quiesce v =>
    if s.quiescent ∧ v = s.pending then some s else none
  | .inline0 =>
    -- forceEnqueue decides per task; scheduleBulkImpl reads numThreads_ once at the start of the call and
    -- then runs every task of the call inline, even if the pool has been resized meanwhile (`zeroPath`)
    if (f.kind = .sched ∨ f.kind = .bulk) ∧ f.pend = .none ∧ (s.nThreads = 0 ∨ s.resizing ∨ f.zeroPath) then
      some (s.setTop t { f with pend := .inlPool, fq := false, zeroPath := f.kind = .bulk })
    else none
  | .inlinePool =>
    if (f.kind = .sched ∨ f.kind = .bulk) ∧ f.pend = .none ∧ ¬ f.fq then some (s.setTop t { f with pend := .inlPool })
    else none
  | .count d =>
    if 0 ≤ d then
      if f.kind = .sched ∨ f.kind = .bulk then
        some ({ s with pending := s.pending + d }.setTop t { f with credit := f.credit + d.toNat })
      else none
    else
      if (-d).toNat ≤ f.unacc ∧ f.pend = .none then
        some ({ s with pending := s.pending + d }.setTop t { f with unacc := f.unacc - (-d).toNat })
      else none
  | .push tier n =>
    if (f.kind = .sched ∨ f.kind = .bulk) ∧ (isRing tier → ringIdx tier < s.nRings) then
      match placeN f n with
      | some (f', moved) =>
        some ({ s with tierItems := List.replicate n tier ++ s.tierItems, queuedSets := moved ++ s.queuedSets }.setTop t f')
      | none => none
    else none
  | .take tier =>
    if f.pend = .none ∧ f.pendDec = none ∧ f.kind ≠ .sched ∧ f.kind ≠ .bulk ∧ f.kind ≠ .cancel ∧ tier ∈ s.tierItems then
      some ({ s with tierItems := s.tierItems.erase tier }.setTop t { f with pend := .took, unacc := f.unacc + 1 })
    else none
  | .rings n =>
    -- resizeLocked publishes the new ring count: a ring outside it must not hold work
    if f.kind = .resize ∧ s.tierItems.all (fun c => !(isRing c) || ringIdx c < n) then some { s with nRings := n } else none
  | .ctor n =>
    if f.kind = .resize ∧ s.tierItems.isEmpty ∧ ¬ s.resizing then some { s with nThreads := n, nRings := n } else none
  | .resizeBegin =>
    if f.kind = .resize ∧ ¬ s.resizing then some { s with resizing := true } else none
  | .resizeEnd n =>
    if f.kind = .resize ∧ s.resizing ∧ f.settled then some { s with resizing := false, nThreads := n } else none
  | .dtorBegin => if f.kind = .pooldtor then some s else none
  | .dtorEnd =>
    if f.kind = .pooldtor ∧ s.quiescent then some { s with destroyed := true } else none
  | .tsInc set n =>
    if (f.kind = .sched ∨ f.kind = .bulk) ∧ f.set = set ∧ set ≠ 0 then
      some ({ s with outstanding := upd s.outstanding set (s.outstanding set + n) }.setTop t { f with tsCredit := f.tsCredit + n })
    else none
  | .tsDec set =>
    if f.pendDec = some set then
      some ({ s with outstanding := upd s.outstanding set (s.outstanding set - 1) }.setTop t { f with pendDec := none })
    else none
  | .tsGuard set cancelled site =>
    -- a cancel check that reads "not cancelled" after the cancelling store is impossible
    if ¬ cancelled ∧ set ∈ s.cancelled then none else
    if site = 0 then
      match f.pend with
      | .took =>
        if set ≠ 0 ∧ set ∈ s.queuedSets ∧ f.pendDec = none then
          let s1 := { s with queuedSets := s.queuedSets.erase set }
          if cancelled then
            some ({ s1 with skipped := upd s.skipped set (s.skipped set + 1) }.setTop t { f with pend := .none, pendDec := some set })
          else some (s1.setTop t { f with pend := .guarded set })
        else none
      | .inlPool =>
        match f.resv with
        | [(_, st)] =>
          if st = set ∧ set ≠ 0 ∧ 0 < f.tsCredit ∧ f.pendDec = none then
            if cancelled then
              some ({ s with skipped := upd s.skipped set (s.skipped set + 1) }.setTop t
                      { f with pend := .none, resv := [], tsCredit := f.tsCredit - 1, pendDec := some set })
            else some (s.setTop t { f with pend := .inlGuarded set })
          else none
        | _ => none
      | _ => none
    else
      if (f.kind = .sched ∨ f.kind = .bulk) ∧ f.set = set ∧ set ≠ 0 ∧ f.pend = .none then
        if cancelled then
          if site = 2 then
            -- TaskSet::schedule returns without running or queuing the task
            match f.resv with
            | [_] => some ({ s with dropped := upd s.dropped set (s.dropped set + 1) }.setTop t { f with resv := [], guardOK := false })
            | _ => none
          else some (s.setTop t { f with guardOK := false })
        else some (s.setTop t { f with guardOK := true })
      else none
  | .tsInline set =>
    -- the set runs the reserved task on the caller without packaging it: only after a passed cancel check,
    -- which covers exactly one body (every inline run in a bulk loop has its own per-iteration check)
    if (f.kind = .sched ∨ f.kind = .bulk) ∧ f.set = set ∧ set ≠ 0 ∧ f.pend = .none ∧ f.guardOK ∧ ¬ f.fq then
      some (s.setTop t { f with pend := .inlTs, guardOK := false })
    else none
  | .tsCancel set => some { s with cancelled := if set ∈ s.cancelled then s.cancelled else set :: s.cancelled }
  | .tsZero set =>
    -- the counter was read as zero (wait / tryWait / the set's destructor): impossible unless it is zero
    if s.outstanding set = 0 then
      if f.kind = .wait ∧ f.set = set then some (s.setTop t { f with zeroSeen := true }) else some s
    else none
  | .tsCapture set =>
    if set ∈ s.captured then none else
    some { s with captured := set :: s.captured, captures := upd s.captures set (s.captures set + 1) }
  | .tsRethrow set =>
    if f.kind = .wait ∧ f.set = set ∧ f.zeroSeen ∧ set ∈ s.captured then
      some ({ s with captured := s.captured.erase set, rethrows := upd s.rethrows set (s.rethrows set + 1) }.setTop t { f with rethrown := true })
    else none

/-- run a trace -/
def run (s : St) : List (Nat × Ev) → Option St
  | [] => some s
  | (t, e) :: rest => match step s t e with
    | some s' => run s' rest
    | none => none

end Dispenso.Sched
