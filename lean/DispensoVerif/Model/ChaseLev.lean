import DispensoVerif.Core.Trace
/-
Model of `dispenso::ChaseLevDeque<T, Capacity>` (dispenso/chase_lev_deque.h) — C36.
`C` is the capacity (a power of two; slot index = position mod C). Fields: 0 `top_`, 1 `bottom_`,
`slotF i = 2 + i % C` element storage (plain memory: T is trivially copyable, so slot accesses leave
no atomic event; in the model they are separate steps that interleave arbitrarily).
One model action per atomic operation / fence / slot access, in the order of the C++.
Sequentially consistent reading (the fences make it the intended one); memory orders are C10's.
Core Lean only.
-/
namespace Dispenso.ChaseLev
open Dispenso.Conc

def slotF (C : Nat) (i : Int) : Fld := 2 + (i % (C : Int)).toNat

inductive L where
  | idle
  | done (ret : List Int)
  -- try_push(v) (owner)
  | pLoadB (v : Int)
  | pLoadT (v b : Int)
  | pWrite (v b : Int)
  | pPub (b : Int)
  -- try_pop (owner); `into` = try_pop_into (reads the slot after restoring bottom)
  | oLoadB (into : Bool)
  | oStoreB (into : Bool) (b : Int)
  | oFence (into : Bool) (b : Int)
  | oLoadT (into : Bool) (b : Int)
  | oRestoreEmpty (b : Int)
  | oRead (into : Bool) (b t : Int)
  | oRestoreLast (into : Bool) (b t v : Int)
  | oReadLate (b t : Int)
  | oCas (b t v : Int)
  -- try_steal (any thread)
  | sLoadT
  | sFence (t : Int)
  | sLoadB (t : Int)
  | sRead (t : Int)
  | sCas (t v : Int)
  -- empty / size
  | qLoadB (what : Nat)
  | qLoadT (what : Nat) (b : Int)
  deriving Repr, DecidableEq

def op (C : Nat) : L → Option AOp
  | .idle => none
  | .done _ => none
  | .pLoadB _ => some (.load 1)
  | .pLoadT _ _ => some (.load 0)
  | .pWrite v b => some (.store (slotF C b) v)
  | .pPub b => some (.store 1 (b + 1))
  | .oLoadB _ => some (.load 1)
  | .oStoreB _ b => some (.store 1 b)
  | .oFence _ _ => some .fence
  | .oLoadT _ _ => some (.load 0)
  | .oRestoreEmpty b => some (.store 1 (b + 1))
  | .oRead _ b _ => some (.load (slotF C b))
  | .oRestoreLast _ b _ _ => some (.store 1 (b + 1))
  | .oReadLate b _ => some (.load (slotF C b))
  | .oCas _ t _ => some (.cas 0 t (t + 1))
  | .sLoadT => some (.load 0)
  | .sFence _ => some .fence
  | .sLoadB _ => some (.load 1)
  | .sRead t => some (.load (slotF C t))
  | .sCas t _ => some (.cas 0 t (t + 1))
  | .qLoadB _ => some (.load 1)
  | .qLoadT _ _ => some (.load 0)

def cont (C : Nat) : L → Int → L
  | .idle, _ => .idle
  | .done r, _ => .done r
  | .pLoadB v, r => .pLoadT v r
  | .pLoadT v b, r => if b - r ≥ (C : Int) then .done [0] else .pWrite v b
  | .pWrite _ b, _ => .pPub b
  | .pPub _, _ => .done [1]
  | .oLoadB into, r => .oStoreB into (r - 1)
  | .oStoreB into b, _ => .oFence into b
  | .oFence into b, _ => .oLoadT into b
  | .oLoadT into b, r =>
    if r > b then .oRestoreEmpty b
    else if into then (if r < b then .oRead true b r else .oRestoreLast true b r 0)
    else .oRead false b r
  | .oRestoreEmpty _, _ => .done [0]
  | .oRead into b t, r =>
    if t < b then .done [1, r] else if into then .oCas b t r else .oRestoreLast false b t r
  | .oRestoreLast into b t v, _ => if into then .oReadLate b t else .oCas b t v
  | .oReadLate b t, r => .oCas b t r
  | .oCas _ t v, r => if r = t then .done [1, v] else .done [0]
  | .sLoadT, r => .sFence r
  | .sFence t, _ => .sLoadB t
  | .sLoadB t, r => if t ≥ r then .done [0] else .sRead t
  | .sRead t, r => .sCas t r
  | .sCas t v, r => if r = t then .done [1, v] else .done [0]
  | .qLoadB w, r => .qLoadT w r
  | .qLoadT w b, r =>
    match w with
    | 0 => .done [if b ≤ r then 1 else 0]
    | _ => .done [if b > r then b - r else 0]

def idleOrDone : L → Bool
  | .idle => true
  | .done _ => true
  | _ => false

def isEntry : L → Bool
  | .pLoadB _ | .oLoadB _ | .sLoadT | .qLoadB _ => true
  | _ => false

def proto (C : Nat) : Proto :=
  { L := L, op := op C, cont := cont C, entry := fun l l' => idleOrDone l && isEntry l' }

def binding (C : Nat) (slotBytes : Nat := 4) : Trace.Binding (proto C) :=
  { fieldOf := fun s => if s = "top" then some 0 else if s = "bottom" then some 1 else
      -- "slot" / "slot+<byte offset>": the harness tells the element size through `slotBytes`
      if s = "slot" then some 2 else
      match s.splitOn "+" with
      | ["slot", off] => (off.toNat?).map fun o => 2 + o / slotBytes
      | _ => none
    bits := fun _ => 64
    mkCall := fun name args _ =>
      match name, args with
      | "try_push", [v] => some (.pLoadB v)
      | "try_pop", [] => some (.oLoadB false)
      | "try_pop_into", [] => some (.oLoadB true)
      | "try_steal", [] => some .sLoadT
      | "empty", [] => some (.qLoadB 0)
      | "size", [] => some (.qLoadB 1)
      | _, _ => none
    retOf := fun l => match l with
      | .done r => some r
      | _ => none
    -- slot accesses are plain memory; the harness registers the storage as a plain region, so every
    -- slot read/write is a trace event (values are not recorded)
    opaqueFld := fun f => decide (2 ≤ f)
    -- the declared orders of chase_lev_deque.h (call-site specific)
    reqOrder := fun l => match l with
      | .pLoadT _ _ => 2      -- top_.load(acquire) in try_push
      | .pPub _ => 3          -- bottom_.store(release) publishes the slot
      | .oFence _ _ => 5      -- seq_cst fence between the bottom store and the top load
      | .oCas _ _ _ => 5      -- seq_cst CAS on top (last element)
      | .sLoadT => 2
      | .sFence _ => 5
      | .sLoadB _ => 2
      | .sCas _ _ => 5
      | .qLoadB _ => 2
      | .qLoadT _ _ => 2
      | _ => 0 }

def init (C : Nat) : State (proto C) := initState (proto C) L.idle (fun _ => 0)

/-- owner-only calls (usage contract: one owner thread pushes and pops) -/
def isOwnerCall : L → Bool
  | .pLoadB _ | .oLoadB _ => true
  | _ => false

end Dispenso.ChaseLev
