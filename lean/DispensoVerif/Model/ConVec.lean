/-
Model of `dispenso::ConcurrentVector<T, Traits>` used sequentially (dispenso/concurrent_vector.h)
— C32.  Two layers:
 * the container as a value: contents `List Int` per vector (the specification is `std::vector`),
   with `live` counting element objects constructed and not yet destroyed exactly where the code
   constructs / destroys them (after the repair of `erase`, which now destroys the vacated tail);
 * the bucket layout: `bucketAndSubIndex` for a first bucket of `2^s` elements, and the capacity
   function, on which the theorems about index ↔ (bucket, sub-index) rest.
Default-constructed elements have tag 0.  Core Lean only.
-/
namespace Dispenso.ConVec

/-! ### bucket layout -/

structure BucketInfo where
  bucket : Nat
  bucketIndex : Nat
  bucketCapacity : Nat
  deriving Repr, DecidableEq

/-- concurrent_vector.h: bucketAndSubIndex(index) with `firstBucketShift_ = s` -/
def bucketAndSubIndex (s : Nat) (index : Nat) : BucketInfo :=
  let firstBucketLen := 2 ^ s
  if index < firstBucketLen then { bucket := 0, bucketIndex := index, bucketCapacity := firstBucketLen }
  else
    let l2idx := Nat.log2 index
    { bucket := l2idx + 1 - s, bucketIndex := index - 2 ^ l2idx, bucketCapacity := 2 ^ l2idx }

/-- first element index of a bucket -/
def bucketStart (s : Nat) (b : Nat) : Nat := if b = 0 then 0 else 2 ^ (s + b - 1)

/-- capacity of a bucket -/
def bucketCap (s : Nat) (b : Nat) : Nat := if b = 0 then 2 ^ s else 2 ^ (s + b - 1)

/-! ### the container as a value -/

structure St where
  vecs : List (Nat × List Int)
  live : Int
  next : Nat
  deriving Repr

def St.init : St := { vecs := [], live := 0, next := 0 }

inductive Op where
  | mk
  | mkSize (n : Nat)
  | mkSizeVal (n : Nat) (x : Int)
  | mkRange (xs : List Int)
  | copyCtor (src : Nat)
  | moveCtor (src : Nat)
  | assign (o n : Nat) (x : Int)
  | assignRange (o : Nat) (xs : List Int)
  | pushBack (o : Nat) (x : Int)
  | growBy (o n : Nat)
  | growByVal (o n : Nat) (x : Int)
  | growByRange (o : Nat) (xs : List Int)
  | growToAtLeast (o n : Nat)
  | growToAtLeastVal (o n : Nat) (x : Int)
  | insert1 (o idx : Nat) (x : Int)
  | insertN (o idx n : Nat) (x : Int)
  | insertRange (o idx : Nat) (xs : List Int)
  | erase1 (o idx : Nat)
  | eraseRange (o i j : Nat)
  | resize (o n : Nat)
  | resizeVal (o n : Nat) (x : Int)
  | reserve (o n : Nat)
  | popBack (o : Nat)
  | clear (o : Nat)
  | shrinkToFit (o : Nat)
  | copyAssign (dst src : Nat)
  | moveAssign (dst src : Nat)
  | swap (a b : Nat)
  | destroy (o : Nat)
  | query (o : Nat)
  | cmp (a b : Nat)
  deriving Repr

def get (s : St) (o : Nat) : Option (List Int) := (s.vecs.find? (·.1 = o)).map (·.2)
def put (s : St) (o : Nat) (v : List Int) : St :=
  { s with vecs := s.vecs.map fun p => if p.1 = o then (p.1, v) else p }
def add (s : St) (v : List Int) : St := { s with vecs := s.vecs ++ [(s.next, v)], next := s.next + 1 }

/-- reply: (size, returned position or -1, live, contents) -/
structure Out where
  size : Nat
  pos : Int
  live : Int
  items : List Int
  deriving Repr

def outOf (s : St) (v : List Int) (pos : Int) : Option Out :=
  some { size := v.length, pos := pos, live := s.live, items := v }

def lexLt : List Int → List Int → Bool
  | [], [] => false
  | [], _ :: _ => true
  | _ :: _, [] => false
  | a :: as, b :: bs => if a < b then true else if b < a then false else lexLt as bs

/-- set the contents of `o` to `v`, adjusting the ledger by the change in length -/
def upd (s : St) (o : Nat) (old v : List Int) (pos : Int) : St × Option Out :=
  let s1 := put { s with live := s.live - old.length + v.length } o v
  (s1, outOf s1 v pos)

def step (s : St) : Op → St × Option Out
  | .mk => let s' := add s []; (s', outOf s' [] (-1))
  | .mkSize n =>
    let v := List.replicate n 0
    let s' := add { s with live := s.live + n } v
    (s', outOf s' v (-1))
  | .mkSizeVal n x =>
    let v := List.replicate n x
    let s' := add { s with live := s.live + n } v
    (s', outOf s' v (-1))
  | .mkRange xs =>
    let s' := add { s with live := s.live + xs.length } xs
    (s', outOf s' xs (-1))
  | .copyCtor src =>
    match get s src with
    | some v => let s' := add { s with live := s.live + v.length } v; (s', outOf s' v (-1))
    | none => (s, none)
  | .moveCtor src =>
    match get s src with
    | some v => let s' := add (put s src []) v; (s', outOf s' v (-1))
    | none => (s, none)
  | .assign o n x =>
    match get s o with
    | some old => upd s o old (List.replicate n x) (-1)
    | none => (s, none)
  | .assignRange o xs =>
    match get s o with
    | some old => upd s o old xs (-1)
    | none => (s, none)
  | .pushBack o x =>
    match get s o with
    | some old => upd s o old (old ++ [x]) old.length
    | none => (s, none)
  | .growBy o n =>
    match get s o with
    | some old => upd s o old (old ++ List.replicate n 0) old.length
    | none => (s, none)
  | .growByVal o n x =>
    match get s o with
    | some old => upd s o old (old ++ List.replicate n x) old.length
    | none => (s, none)
  | .growByRange o xs =>
    match get s o with
    | some old => upd s o old (old ++ xs) old.length
    | none => (s, none)
  | .growToAtLeast o n =>
    match get s o with
    | some old =>
      if old.length < n then upd s o old (old ++ List.replicate (n - old.length) 0) old.length
      else if n = 0 then (s, none) else (s, outOf s old ((n : Int) - 1))
    | none => (s, none)
  | .growToAtLeastVal o n x =>
    match get s o with
    | some old =>
      if old.length < n then upd s o old (old ++ List.replicate (n - old.length) x) old.length
      else if n = 0 then (s, none) else (s, outOf s old ((n : Int) - 1))
    | none => (s, none)
  | .insert1 o idx x =>
    match get s o with
    | some old => if idx ≤ old.length then upd s o old (old.take idx ++ [x] ++ old.drop idx) idx else (s, none)
    | none => (s, none)
  | .insertN o idx n x =>
    match get s o with
    | some old =>
      if idx ≤ old.length then upd s o old (old.take idx ++ List.replicate n x ++ old.drop idx) idx else (s, none)
    | none => (s, none)
  | .insertRange o idx xs =>
    match get s o with
    | some old => if idx ≤ old.length then upd s o old (old.take idx ++ xs ++ old.drop idx) idx else (s, none)
    | none => (s, none)
  | .erase1 o idx =>
    match get s o with
    | some old =>
      if idx < old.length then upd s o old (old.eraseIdx idx) idx
      else if idx = old.length then (s, outOf s old idx) else (s, none)
    | none => (s, none)
  | .eraseRange o i j =>
    match get s o with
    | some old =>
      if i ≤ j ∧ j ≤ old.length then upd s o old (old.take i ++ old.drop j) i else (s, none)
    | none => (s, none)
  | .resize o n =>
    match get s o with
    | some old =>
      if old.length < n then upd s o old (old ++ List.replicate (n - old.length) 0) (-1)
      else upd s o old (old.take n) (-1)
    | none => (s, none)
  | .resizeVal o n x =>
    match get s o with
    | some old =>
      if old.length < n then upd s o old (old ++ List.replicate (n - old.length) x) (-1)
      else upd s o old (old.take n) (-1)
    | none => (s, none)
  | .reserve o _ =>
    match get s o with
    | some old => (s, outOf s old (-1))
    | none => (s, none)
  | .popBack o =>
    match get s o with
    | some old => if old = [] then (s, none) else upd s o old old.dropLast (-1)
    | none => (s, none)
  | .clear o =>
    match get s o with
    | some old => upd s o old [] (-1)
    | none => (s, none)
  | .shrinkToFit o =>
    match get s o with
    | some old => (s, outOf s old (-1))
    | none => (s, none)
  | .copyAssign dst src =>
    match get s dst, get s src with
    | some d, some v => if dst = src then (s, outOf s d (-1)) else upd s dst d v (-1)
    | _, _ => (s, none)
  | .moveAssign dst src =>
    match get s dst, get s src with
    | some d, some v =>
      if dst = src then (s, outOf s d (-1)) else
      -- clear() destroys the destination's elements, then the two vectors are swapped
      let s1 := put (put { s with live := s.live - d.length } dst v) src []
      (s1, outOf s1 v (-1))
    | _, _ => (s, none)
  | .swap a b =>
    match get s a, get s b with
    | some va, some vb =>
      if a = b then (s, outOf s va (-1)) else
      let s1 := put (put s a vb) b va
      (s1, outOf s1 vb (-1))
    | _, _ => (s, none)
  | .destroy o =>
    match get s o with
    | some old =>
      let s1 := { s with vecs := s.vecs.filter (·.1 ≠ o), live := s.live - old.length }
      (s1, some { size := 0, pos := -1, live := s1.live, items := [] })
    | none => (s, none)
  | .query o =>
    match get s o with
    | some old => (s, outOf s old (-1))
    | none => (s, none)
  | .cmp a b =>
    match get s a, get s b with
    | some va, some vb =>
      (s, some { size := 0, pos := (if va = vb then 1 else 0) + (if lexLt va vb then 2 else 0), live := s.live, items := [] })
    | _, _ => (s, none)

def runOps (s : St) : List Op → St
  | [] => s
  | o :: os => runOps (step s o).1 os

def totalItems (s : St) : Int := (s.vecs.map fun p => (p.2.length : Int)).sum

end Dispenso.ConVec
