import DispensoVerif.Core.Trace
/-
Model of `dispenso::PoolAllocatorT<kThreadSafe>` (dispenso/pool_allocator.{h,cpp}) — C42.
 * `Seq`: the allocator as a value: slabs obtained from `allocFunc` (numbered in order of first
   use), the reuse list filled by `clear()`, the stack of free chunks, the chunks handed out, and
   counters of `allocFunc` / `deallocFunc` calls. A chunk is `(slab, index)`, index < chunksPerAlloc.
 * `proto`: the spin lock of the thread-safe variant (`fetch_or 1` / `store 0` on field 0) around
   the critical sections of `alloc` and `dealloc` (whose bodies touch only plain data).
Precondition of the class: `allocSize ≥ chunkSize` (k = chunksPerAlloc ≥ 1).  Core Lean only.
-/
namespace Dispenso.PoolAlloc

namespace Seq

structure St where
  k : Nat                          -- chunksPerAlloc
  active : List Nat                -- backingAllocs_
  reuse : List Nat                 -- backingAllocs2_
  free : List (Nat × Nat)          -- chunks_ (back of the vector = end of the list)
  out : List (Nat × Nat)           -- chunks handed out and not yet returned
  nextSlab : Nat
  allocCalls : Nat
  deallocCalls : Nat
  deriving Repr

def St.init (k : Nat) : St :=
  { k := k, active := [], reuse := [], free := [], out := [], nextSlab := 0, allocCalls := 0, deallocCalls := 0 }

inductive Op where
  | alloc
  | dealloc (slab idx : Nat)
  | clear
  | destroy
  deriving Repr

structure Out where
  slab : Int
  idx : Int
  allocCalls : Nat
  deallocCalls : Nat
  capacity : Nat
  deriving Repr

def capacity (s : St) : Nat := (s.active.length + s.reuse.length) * s.k

def mkOut (s : St) (slab idx : Int) : Option Out :=
  some { slab := slab, idx := idx, allocCalls := s.allocCalls, deallocCalls := s.deallocCalls, capacity := capacity s }

def step (s : St) : Op → St × Option Out
  | .alloc =>
    if s.k = 0 then (s, none) else
    match s.free.getLast? with
    | none =>
      -- no free chunk: take a slab from the reuse list, else from allocFunc
      let (slab, reuse', next', calls') :=
        match s.reuse.getLast? with
        | some r => (r, s.reuse.dropLast, s.nextSlab, s.allocCalls)
        | none => (s.nextSlab, s.reuse, s.nextSlab + 1, s.allocCalls + 1)
      let s' := { s with active := s.active ++ [slab], reuse := reuse', nextSlab := next', allocCalls := calls',
                         free := (List.range (s.k - 1)).map fun i => (slab, i),
                         out := s.out ++ [(slab, s.k - 1)] }
      (s', mkOut s' slab ((s.k - 1 : Nat) : Int))
    | some c =>
      let s' := { s with free := s.free.dropLast, out := s.out ++ [c] }
      (s', mkOut s' c.1 c.2)
  | .dealloc slab idx =>
    if (slab, idx) ∈ s.out then
      let s' := { s with free := s.free ++ [(slab, idx)], out := s.out.erase (slab, idx) }
      (s', mkOut s' (-1) (-1))
    else (s, none)
  | .clear =>
    -- chunks_.clear(); the larger of the two slab lists becomes the reuse list, the other is appended
    let (a, r) := if s.reuse.length < s.active.length then (s.reuse, s.active) else (s.active, s.reuse)
    let s' := { s with free := [], out := [], active := [], reuse := r ++ a }
    (s', mkOut s' (-1) (-1))
  | .destroy =>
    let s' := { s with deallocCalls := s.deallocCalls + s.active.length + s.reuse.length, active := [], reuse := [],
                       free := [], out := [] }
    (s', mkOut s' (-1) (-1))

def runOps (s : St) : List Op → St
  | [] => s
  | o :: os => runOps (step s o).1 os

end Seq

/-! ### the spin lock of the thread-safe variant -/
open Dispenso.Conc

inductive L where
  | idle
  | done
  | aLock            -- alloc(): fetch_or(1); on failure yield and retry
  | aUnlock          -- critical section done (plain data), store 0
  | dLock            -- dealloc(): fetch_or(1); on failure retry
  | dUnlock
  deriving Repr, DecidableEq

def op : L → Option AOp
  | .idle => none
  | .done => none
  | .aLock => some (.for_ 0 1)
  | .aUnlock => some (.store 0 0)
  | .dLock => some (.for_ 0 1)
  | .dUnlock => some (.store 0 0)

def cont : L → Int → L
  | .idle, _ => .idle
  | .done, _ => .done
  | .aLock, r => if r = 0 then .aUnlock else .aLock
  | .aUnlock, _ => .done
  | .dLock, r => if r = 0 then .dUnlock else .dLock
  | .dUnlock, _ => .done

def inCritical : L → Bool
  | .aUnlock | .dUnlock => true
  | _ => false

def proto : Proto :=
  { L := L, op := op, cont := cont,
    entry := fun l l' => (match l with | .idle | .done => true | _ => false) &&
                         (match l' with | .aLock | .dLock => true | _ => false) }

def binding : Trace.Binding proto :=
  { fieldOf := fun s => if s = "lock" then some 0 else none
    bits := fun _ => 32
    mkCall := fun name _ _ =>
      match name with
      | "alloc" => some .aLock
      | "dealloc" => some .dLock
      | _ => none
    retOf := fun l => match l with
      | .done => some []
      | _ => none
    reqOrder := fun l => match l with
      | .aLock | .dLock => 2 | .aUnlock | .dUnlock => 3
      | _ => 0 }

def init : State proto := initState proto L.idle (fun _ => 0)

end Dispenso.PoolAlloc
