import DispensoVerif.Core.Trace
import DispensoVerif.Model.Bits
/-
Model of the wake protocol of the thread pool — C07, C09.
  dispenso/detail/thread_pool_wake.h   PoolWakeState: enterSleep, exitSleep, tryClaimSleeper, cascadeWake,
                                       totalSleeping
  dispenso/thread_pool_wake.cpp        claimAndWakeOne, wakeRange, cascadeWakeSeed, wakeAll
  dispenso/detail/epoch_waiter.h       EpochWaiter (Linux variant): current, bump, bumpAndWake,
                                       bumpAndWakeN, bumpAndWakeAll, waitFor
  dispenso/thread_pool.cpp             the park sequence of ThreadPool::threadLoopImpl<true>
                                       (enterSleep; running re-check; waitOnThread; exitSleep), the loop
                                       guard `while (data.running())`, and the stop path of
                                       ~ThreadPool / resizeLocked (PerThreadData::stop for all, wakeAll)
for a pool of `N ≥ 1` worker threads in wake groups of `G ≥ 1` (`numGroups = ⌈N / G⌉`), one model
action per atomic operation / futex call, in the generic interleaving semantics of `Core/Conc.lean`
(a futex wake picks arbitrary waiters; time-outs and spurious returns are explicit actions).

Fields: 0 `totalSleeping_`, 1 `nextWakeGroup_`, 2+3g `groupStates_[g].sleepMask`,
3+3g `waiterBlocks_[g].waiter.epoch_` (the futex word), 4+3i `threads_[i].running_`.

A worker thread `i` is one thread whose calls are `wStart` (load of the group epoch before the loop),
`wRun` (the loop guard) and `wPark` (the park sequence); between calls it is "busy or spinning"
(state `wIdle` / `wOn`, which remember the epoch value the thread will pass to `waitFor`).
What the worker does with tasks, `markIdle`, the spin counters and the central-queue probe after a
time-out are outside this model (they touch no wake state).

`stopAll` is "stop every thread, then wakeAll" as executed by ~ThreadPool and resizeLocked;
`stopAllOld` is the same with the pre-repair `wakeAll` (futex wake only for groups with a
non-empty sleep mask) and is part of `protoOld` only.
Core Lean only.
-/
namespace Dispenso.Wake
open Dispenso.Conc

def intMax : Nat := 2147483647

def fTotal : Fld := 0
def fNwg : Fld := 1
def fMask (g : Nat) : Fld := 2 + 3 * g
def fEpoch (g : Nat) : Fld := 3 + 3 * g
def fRun (i : Nat) : Fld := 4 + 3 * i

/-- `numGroups_ = (numThreads + groupSize - 1) / groupSize` -/
def numGroups (N G : Nat) : Nat := (N + G - 1) / G

/-- `nextGroupTable_[g]` -/
def nextGroup (NG g : Nat) : Nat := if g + 1 < NG then g + 1 else 0

def all64 : Nat := 2 ^ 64 - 1

/-- `uint64_t{1} << bit` -/
def bitOf (b : Nat) : Int := Int.ofNat (2 ^ b)

/-- `~(uint64_t{1} << bit)` -/
def clearOf (b : Nat) : Int := Int.ofNat (all64 ^^^ 2 ^ b)

/-- `detail::countTrailingZeros` / `detail::countSetBits` on a 64-bit word (their specifications; the
compiled functions are compared with these by C44) -/
def ctz (m : Nat) : Nat := Bits.ctzSpec 64 m
def popcount (m : Nat) : Nat := Bits.popcountSpec 64 m

inductive L where
  | idle
  | ret (v : Int)
  | sDone                          -- stopAll returned (terminal)
  | sDoneOld                       -- stopAllOld returned (terminal)
  -- worker i: e = the epoch value it will pass to waitFor
  | wCur (i : Nat)                 -- waiterFor(i).current() before the loop
  | wIdle (i : Nat) (e : Int)      -- between calls, loop guard comes next
  | wRun (i : Nat) (e : Int)       -- while (data.running())
  | wOn (i : Nat) (e : Int)        -- guard passed: working / spinning; may run the guard again or park
  | wOr (i : Nat) (e : Int)        -- enterSleep: sleepMask.fetch_or(bit)
  | wInc (i : Nat) (e : Int)       -- enterSleep: totalSleeping_.fetch_add(1)
  | wRe (i : Nat) (e : Int)        -- if (!data.running())
  | wXAnd (i : Nat)                -- exitSleep on the stop path, then break
  | wXDec (i : Nat)
  | wE1 (i : Nat) (e : Int)        -- waitFor: first epoch load
  | wE2 (i : Nat) (e : Int)        -- waitFor: second epoch load
  | wWait (i : Nat) (e : Int)      -- futex(FUTEX_WAIT, current, &ts)
  | wE3 (i : Nat)                  -- waitFor: epoch load after the futex call
  | wAnd (i : Nat) (e : Int)       -- exitSleep: sleepMask.fetch_and(~bit); e = value waitFor returned
  | wDec (i : Nat) (e : Int)       -- exitSleep: totalSleeping_.fetch_sub(1)
  | wExit (i : Nat)                -- left the loop (terminal)
  -- claimAndWakeOne
  | cTot
  | cNwg
  | cMask (g gi : Nat)             -- sleepMask load of group g, gi-th iteration of the group loop
  | cClaim (g gi : Nat) (m : Nat)  -- tryClaimSleeper(g * G + ctz m): fetch_and
  | cBump (g idx : Nat)            -- waiterFor(idx).bumpAndWake(): fetch_add
  | cWake (g idx : Nat)            --                               futex wake 1
  | cNext (g idx : Nat)            -- nextWakeGroup_.store
  -- cascadeWake(tg)
  | kMask (tg : Nat)
  | kBump (tg n : Nat)             -- n = number of set mask bits (0: bump only)
  | kWake (tg n : Nat)
  -- wakeRange(c) (seed = false) / cascadeWakeSeed(c) (seed = true)
  | rTot (c : Nat)
  | rFast (g c : Nat)
  | rMask (g c : Nat) (seed : Bool)
  | rBump (g c : Nat) (seed : Bool) (n : Nat)
  | rWake (g c : Nat) (seed : Bool) (n : Nat)
  -- totalSleeping()
  | tLoad
  -- stop all threads (running_.store(false) for i = 0..N-1), then wakeAll
  | sStore (i : Nat) (old : Bool)
  | aBump (g : Nat)                -- wakeAll: bumpAndWakeAll for every group
  | aWake (g : Nat)
  | oMask (g : Nat)                -- pre-repair wakeAll: load the sleep mask first
  | oBump (g : Nat) (wake : Bool)
  | oWake (g : Nat)
  deriving Repr, DecidableEq

section
variable (N G : Nat)

/-- `lastGroup` of wakeRange / cascadeWakeSeed (the latter clamps it to the last group) -/
def lastGroup (c : Nat) (seed : Bool) : Nat :=
  let l := (c - 1) / G
  if seed && decide (numGroups N G ≤ l) then numGroups N G - 1 else l

/-- the mask wakeRange / cascadeWakeSeed count the sleepers of, for group `g` -/
def rangeMask (g c : Nat) (seed : Bool) (m : Nat) : Nat :=
  if g = lastGroup N G c seed then
    let bits := c - g * G
    if bits < 64 then m &&& (2 ^ bits - 1) else m
  else m

/-- the inner `while (mask)` loop of claimAndWakeOne up to the next `tryClaimSleeper` call: skips set
bits whose thread index is not below `numThreads_` -/
def cand (g : Nat) : Nat → Nat → Option Nat
  | 0, _ => none
  | fuel + 1, m =>
    if m = 0 then none
    else if g * G + ctz m < N then some m
    else cand g fuel (m &&& (m - 1))

/-- continue claimAndWakeOne's loops with the remaining mask `m` of group `g` -/
def afterMask (g gi m : Nat) : L :=
  match cand N G g 64 m with
  | some m' => .cClaim g gi m'
  | none => if gi + 1 < numGroups N G then .cMask (nextGroup (numGroups N G) g) (gi + 1) else .ret (-1)

def rNext (g c : Nat) (seed : Bool) : L :=
  if g + 1 ≤ lastGroup N G c seed ∧ g + 1 < numGroups N G then .rMask (g + 1) c seed
  else .ret (if seed then 1 else 0)

def aNext (g : Nat) : L := if g + 1 < numGroups N G then .aBump (g + 1) else .sDone
def oNext (g : Nat) : L := if g + 1 < numGroups N G then .oMask (g + 1) else .sDoneOld

def op : L → Option AOp
  | .idle | .ret _ | .sDone | .sDoneOld | .wIdle _ _ | .wOn _ _ | .wExit _ => none
  | .wCur i => some (.load (fEpoch (i / G)))
  | .wRun i _ => some (.load (fRun i))
  | .wOr i _ => some (.for_ (fMask (i / G)) (bitOf (i % G)))
  | .wInc _ _ => some (.fadd fTotal 1)
  | .wRe i _ => some (.load (fRun i))
  | .wXAnd i => some (.fand (fMask (i / G)) (clearOf (i % G)))
  | .wXDec _ => some (.fsub fTotal 1)
  | .wE1 i _ => some (.load (fEpoch (i / G)))
  | .wE2 i _ => some (.load (fEpoch (i / G)))
  | .wWait i e => some (.fwait (fEpoch (i / G)) e true)
  | .wE3 i => some (.load (fEpoch (i / G)))
  | .wAnd i _ => some (.fand (fMask (i / G)) (clearOf (i % G)))
  | .wDec _ _ => some (.fsub fTotal 1)
  | .cTot => some (.load fTotal)
  | .cNwg => some (.load fNwg)
  | .cMask g _ => some (.load (fMask g))
  | .cClaim g _ m => some (.fand (fMask ((g * G + ctz m) / G)) (clearOf ((g * G + ctz m) % G)))
  | .cBump _ idx => some (.fadd (fEpoch (idx / G)) 1)
  | .cWake _ idx => some (.fwake (fEpoch (idx / G)) 1)
  | .cNext g _ => some (.store fNwg ((nextGroup (numGroups N G) g : Nat) : Int))
  | .kMask tg => some (.load (fMask tg))
  | .kBump tg _ => some (.fadd (fEpoch tg) 1)
  | .kWake tg n => some (.fwake (fEpoch tg) n)
  | .rTot _ => some (.load fTotal)
  | .rFast g _ => some (.fadd (fEpoch g) 1)
  | .rMask g _ _ => some (.load (fMask g))
  | .rBump g _ _ _ => some (.fadd (fEpoch g) 1)
  | .rWake g _ _ n => some (.fwake (fEpoch g) n)
  | .tLoad => some (.load fTotal)
  | .sStore i _ => some (.store (fRun i) 0)
  | .aBump g => some (.fadd (fEpoch g) 1)
  | .aWake g => some (.fwake (fEpoch g) intMax)
  | .oMask g => some (.load (fMask g))
  | .oBump g _ => some (.fadd (fEpoch g) 1)
  | .oWake g => some (.fwake (fEpoch g) intMax)

def cont : L → Int → L
  | .idle, _ => .idle
  | .ret v, _ => .ret v
  | .sDone, _ => .sDone
  | .sDoneOld, _ => .sDoneOld
  | .wIdle i e, _ => .wIdle i e
  | .wOn i e, _ => .wOn i e
  | .wExit i, _ => .wExit i
  | .wCur i, r => .wIdle i r
  | .wRun i e, r => if r ≠ 0 then .wOn i e else .wExit i
  | .wOr i e, _ => .wInc i e
  | .wInc i e, _ => .wRe i e
  | .wRe i e, r => if r ≠ 0 then .wE1 i e else .wXAnd i
  | .wXAnd i, _ => .wXDec i
  | .wXDec i, _ => .wExit i
  | .wE1 i e, r => if r ≠ e then .wAnd i r else .wE2 i e
  | .wE2 i e, r => if r = e then .wWait i e else .wAnd i r
  | .wWait i _, _ => .wE3 i
  | .wE3 i, r => .wAnd i r
  | .wAnd i e, _ => .wDec i e
  | .wDec i e, _ => .wIdle i e
  | .cTot, r => if r ≤ 0 then .ret (-1) else .cNwg
  | .cNwg, r => .cMask (if r ≥ (numGroups N G : Int) then 0 else r.toNat) 0
  | .cMask g gi, r => afterMask N G g gi r.toNat
  | .cClaim g gi m, r =>
    if r.toNat.testBit ((g * G + ctz m) % G) then .cBump g (g * G + ctz m)
    else afterMask N G g gi (m &&& (m - 1))
  | .cBump g idx, _ => .cWake g idx
  | .cWake g idx, _ => .cNext g idx
  | .cNext _ idx, _ => .ret (idx : Int)
  | .kMask tg, r => .kBump tg (if r = 0 then 0 else popcount r.toNat)
  | .kBump tg n, _ => if n = 0 then .ret 0 else .kWake tg n
  | .kWake _ _, _ => .ret 0
  | .rTot c, r => if r = 0 then .rFast 0 c else .rMask 0 c true
  | .rFast g c, _ => if g + 1 ≤ lastGroup N G c true then .rFast (g + 1) c else .ret 0
  | .rMask g c seed, r =>
    let m := rangeMask N G g c seed r.toNat
    .rBump g c seed (if m = 0 then 0 else popcount m)
  | .rBump g c seed n, _ => if n = 0 then rNext N G g c seed else .rWake g c seed n
  | .rWake g c seed _, _ => rNext N G g c seed
  | .tLoad, r => .ret r
  | .sStore i old, _ => if i + 1 < N then .sStore (i + 1) old else if old then .oMask 0 else .aBump 0
  | .aBump g, _ => .aWake g
  | .aWake g, _ => aNext N G g
  | .oMask g, r => .oBump g (decide (r ≠ 0))
  | .oBump g w, _ => if w then .oWake g else oNext N G g
  | .oWake g, _ => oNext N G g

/-- calls any thread that is not a worker may start (`old`: the pre-repair stop path instead of the
current one) -/
def isEntry (old : Bool) : L → Bool
  | .cTot | .tLoad => true
  | .ret v => decide (v = 0)                       -- wakeRange / cascadeWakeSeed with count ≤ 0
  | .kMask tg => decide (tg < numGroups N G)
  | .rMask g c seed => decide (g = 0 ∧ 0 < c ∧ seed = false)
  | .rTot c => decide (0 < c)
  | .sStore i o => decide (i = 0 ∧ o = old)
  | _ => false

def entry (old : Bool) : L → L → Bool
  | .idle, .wCur i => decide (i < N)
  | .idle, l' => isEntry N G old l'
  | .ret _, l' => isEntry N G old l'
  | .wIdle i e, .wRun j e' => decide (i = j ∧ e = e')
  | .wOn i e, .wRun j e' => decide (i = j ∧ e = e')
  | .wOn i e, .wOr j e' => decide (i = j ∧ e = e')
  | _, _ => false

abbrev proto : Proto := { L := L, op := op N G, cont := cont N G, entry := entry N G false }

/-- the same code with the pre-repair `wakeAll` on the stop path -/
abbrev protoOld : Proto := { L := L, op := op N G, cont := cont N G, entry := entry N G true }

def initMem : Fld → Int := fun f => if f % 3 = 1 ∧ 4 ≤ f then 1 else 0

def init : State (proto N G) := initState (proto N G) L.idle initMem
def initOld : State (protoOld N G) := initState (protoOld N G) L.idle initMem

end

/-! ### trace binding -/

def parseIdx (pre s : String) : Option Nat :=
  if s.startsWith pre then (s.drop pre.length).toNat? else none

def fieldOf (s : String) : Option Fld :=
  if s = "total" then some fTotal
  else if s = "nwg" then some fNwg
  else match parseIdx "mask" s with
    | some g => some (fMask g)
    | none => match parseIdx "ep" s with
      | some g => some (fEpoch g)
      | none => match parseIdx "run" s with
        | some i => some (fRun i)
        | none => none

def bitsOf (f : Fld) : Nat :=
  if f = 0 ∨ f = 1 then 32 else if f % 3 = 2 then 64 else if f % 3 = 0 then 32 else 8

def mkCall (name : String) (args : List Int) (cur : L) : Option L :=
  match name, args, cur with
  | "wStart", [i], _ => if 0 ≤ i then some (.wCur i.toNat) else none
  | "wRun", [], .wIdle i e => some (.wRun i e)
  | "wRun", [], .wOn i e => some (.wRun i e)
  | "wPark", [], .wOn i e => some (.wOr i e)
  | "claimAndWakeOne", [], _ => some .cTot
  | "totalSleeping", [], _ => some .tLoad
  | "cascadeWake", [tg], _ => if 0 ≤ tg then some (.kMask tg.toNat) else none
  | "wakeRange", [c], _ => some (if c ≤ 0 then .ret 0 else .rMask 0 c.toNat false)
  | "cascadeWakeSeed", [c], _ => some (if c ≤ 0 then .ret 0 else .rTot c.toNat)
  | "stopAll", [], _ => some (.sStore 0 false)
  | _, _, _ => none

/-- calls of the wake API proper (as opposed to the worker loop's `wStart` / `wRun` / `wPark`) -/
def isApiCall (name : String) : Bool :=
  name = "claimAndWakeOne" || name = "totalSleeping" || name = "cascadeWake" || name = "wakeRange" ||
  name = "cascadeWakeSeed" || name = "stopAll"

/-- a worker thread between two operations of its loop (inside a task body or spinning) -/
def isWorkerBetween : L → Bool
  | .wIdle _ _ | .wOn _ _ => true
  | _ => false

def retOf : L → Option (List Int)
  | .ret v => some [v]
  | .sDone => some [0]
  | .wIdle _ e => some [e]
  | .wOn _ _ => some [1]
  | .wExit _ => some [0]
  | _ => none

/-- declared memory orders of the sources (2 acquire, 3 release, 4 acq_rel) -/
def reqOrder : L → Nat
  | .wCur _ | .wRun _ _ | .wRe _ _ | .wE1 _ _ | .wE2 _ _ | .wE3 _ => 2
  | .wOr _ _ | .sStore _ _ => 3
  | .cClaim _ _ _ | .cBump _ _ | .kBump _ _ | .rFast _ _ | .rBump _ _ _ _ | .aBump _ | .oBump _ _ => 4
  | _ => 0

def binding (N G : Nat) : Trace.Binding (proto N G) :=
  { fieldOf := fieldOf, bits := bitsOf, mkCall := mkCall, retOf := retOf, reqOrder := reqOrder }

end Dispenso.Wake
