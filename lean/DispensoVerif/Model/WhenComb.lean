import DispensoVerif.Core.Trace
/-
Models of the readiness logic of `dispenso::when_all` and `dispenso::when_any`
(`detail::whenAllIterators` / `whenAllTuple`, `whenAnyIterators` / `whenAnyTuple`,
dispenso/detail/future_impl2.h) — C19.  One model action per atomic operation / futex call, in the
generic interleaving semantics `Core/Conc.lean`.

Fields (both models)
  0        when_all: `shared->count` (initially N);  when_any: `shared->winner` (-1 = SIZE_MAX)
  1        `status_` of the result future (0 kNotStarted, 1 kRunning, 2 kReady)
  2        when_any: the result value stored by the result future's functor (-2: not stored)
  2i + 10  `status_` of input `i` (the inputs have been started: 1 kRunning until they complete, 2 kReady)
  2i + 11  when_all, ghost: the continuation registered on input `i` has not been invoked yet (1 / 0);
           that a registered continuation is dispatched exactly once is C19.a–d (then-chain), that
           the continuation future then runs its functor once is C18
`Future::wait()` on an input or on the result is `waitCommon` (one load) followed by
`CompletionEventImpl::wait` (load / futex-wait loop); inputs are never run inline (they are running).
A continuation is dispatched only when its input is ready (C19.b), so the `copy.wait()` of its
wrapper is a single load that sees `kReady`: the model lets a thread start the continuation of
input `i` only right after it has loaded `kReady` from input `i` (`pbLoad` / `pbDone`).
Core Lean only.
-/
namespace Dispenso.WhenComb
open Dispenso.Conc

def intMax : Nat := 2147483647

def fIn (i : Nat) : Fld := 2 * i + 10
def fTok (i : Nat) : Fld := 2 * i + 11

/-! ### when_all -/
namespace All

inductive PC where
  | idle
  | done (r : Int)
  | bad
  | pbLoad (i : Nat)                              -- a load of input `i`'s status (`then()`'s checks, the wrapper's `copy.wait()`)
  | pbDone (i : Nat)                              -- … which saw `kReady`
  | inStore (i : Nat) | inWake (i : Nat)          -- input `i` completes: `notify(kReady)`
  | ctTake (i : Nat)                              -- the continuation of input `i` runs (after its `copy.wait()` saw `kReady`)
  | ctSub (i : Nat)                               -- `shared->count.fetch_sub(1) == 1` ?
  | rcCas (g : Bool)                              -- `run()` of the result future (`g`: by a waiter, inline)
  | wkCnt (i : Nat)                               -- `if (0 == shared->count.load()) break;`
  | wA (i : Nat) | wB (i : Nat) | wC (i : Nat) (cur : Int)   -- `whenComplete`: `f.wait()` on input `i`
  | rcStore | rcWake                              -- `notify(kReady)` of the result future
  | gtLoad | gwLoad | gwWait (cur : Int)          -- `result.wait()`
  | irLoad                                        -- `result.is_ready()`
  deriving Repr, DecidableEq

def op : PC → Option AOp
  | .idle | .done _ | .bad | .pbDone _ => none
  | .pbLoad i => some (.load (fIn i))
  | .inStore i => some (.store (fIn i) 2)
  | .inWake i => some (.fwake (fIn i) intMax)
  | .ctTake i => some (.cas (fTok i) 1 0)
  | .ctSub _ => some (.fsub 0 1)
  | .rcCas _ => some (.cas 1 0 1)
  | .wkCnt _ => some (.load 0)
  | .wA i => some (.load (fIn i))
  | .wB i => some (.load (fIn i))
  | .wC i cur => some (.fwait (fIn i) cur false)
  | .rcStore => some (.store 1 2)
  | .rcWake => some (.fwake 1 intMax)
  | .gtLoad => some (.load 1)
  | .gwLoad => some (.load 1)
  | .gwWait cur => some (.fwait 1 cur false)
  | .irLoad => some (.load 1)

/-- the `whenComplete` loop after `wait()` on input `i` returned -/
def next (N : Nat) (i : Nat) : PC := if i + 1 < N then .wkCnt (i + 1) else .rcStore

def cont (N : Nat) : PC → Int → PC
  | .idle, _ => .idle
  | .done r, _ => .done r
  | .bad, _ => .bad
  | .pbDone i, _ => .pbDone i
  | .pbLoad i, r => if r = 2 then .pbDone i else .done 0
  | .inStore i, _ => .inWake i
  | .inWake _, _ => .done 0
  | .ctTake i, r => if r = 1 then .ctSub i else .bad
  | .ctSub _, r => if r = 1 then .rcCas false else .done 0
  | .rcCas g, r => if r = 0 then .wkCnt 0 else if g then .gwLoad else .done 0
  | .wkCnt i, r => if r = 0 then .rcStore else .wA i
  | .wA i, r => if r = 2 then next N i else .wB i
  | .wB i, r => if r = 2 then next N i else .wC i r
  | .wC i _, _ => .wB i
  | .rcStore, _ => .rcWake
  | .rcWake, _ => .done 0
  | .gtLoad, r => if r = 2 then .done 0 else if r = 0 then .rcCas true else .gwLoad
  | .gwLoad, r => if r = 2 then .done 0 else .gwWait r
  | .gwWait _, _ => .gwLoad
  | .irLoad, r => .done (if r = 2 then 1 else 0)

def idleOrDone : PC → Bool
  | .idle | .done _ | .pbDone _ => true
  | _ => false

def isEntry (N : Nat) : PC → Bool
  | .inStore i | .pbLoad i => decide (i < N)
  | .gtLoad | .irLoad => true
  | _ => false

/-- the continuation of input `i` starts only on a thread that has just seen input `i` ready
(`copy.wait()` in the wrapper built by `thenImpl`) -/
def entry (N : Nat) (l l' : PC) : Bool :=
  (idleOrDone l && isEntry N l') || (match l, l' with | .pbDone i, .ctTake j => decide (i = j) | _, _ => false)

def proto (N : Nat) : Proto :=
  { L := PC, op := op, cont := cont N, entry := entry N }

/-- `N ≥ 1` inputs, all running; count = N; every continuation registered -/
def init (N : Nat) : State (proto N) :=
  initState (proto N) PC.idle
    (fun f => if f = 0 then N else if 10 ≤ f ∧ f < 10 + 2 * N then 1 else 0)

def fieldOf (s : String) : Option Fld :=
  if s = "cw" then some 0 else if s = "rstatus" then some 1
  else if s.startsWith "in" then (s.drop 2).toNat?.map fIn else none

def binding (N : Nat) : Trace.Binding (proto N) :=
  { fieldOf := fieldOf
    bits := fun f => if f = 0 then 64 else 32
    mkCall := fun name args _ =>
      match name, args with
      | "wait", [] => some .gtLoad
      | "is_ready", [] => some .irLoad
      | _, _ => none
    retOf := fun l => match l with
      | .done r => some [r]
      | _ => none
    silentFld := fun f => decide (11 ≤ f ∧ f % 2 = 1) }

end All

/-! ### when_any -/
namespace Any

inductive PC where
  | idle
  | done (r : Int)
  | bad
  | pbLoad (i : Nat) | pbDone (i : Nat)
  | inStore (i : Nat) | inWake (i : Nat)
  | ctCas (i : Nat)                               -- `winner.compare_exchange_strong(SIZE_MAX, i)`
  | rcCas (g : Bool)
  -- the result's functor and `notify`; `g`: run inline by a `get()`, which then reads the result
  | waLoad (g : Bool)                             -- `w = winner.load(); if (w != SIZE_MAX) return w;`
  | wA (g : Bool) | wB (g : Bool) | wC (g : Bool) (cur : Int)   -- inline path: `vec[0].wait()`
  | waCas (g : Bool)                              -- inline path: claim input 0
  | waLoad2 (g : Bool)
  | rcVal (g : Bool) (w : Int)                    -- the functor's result is stored
  | rcStore (g : Bool) | rcWake (g : Bool)
  | gtLoad | gwLoad | gwWait (cur : Int)
  | gtVal                                         -- `get()`: read the stored result
  deriving Repr, DecidableEq

def op : PC → Option AOp
  | .idle | .done _ | .bad | .pbDone _ => none
  | .pbLoad i => some (.load (fIn i))
  | .inStore i => some (.store (fIn i) 2)
  | .inWake i => some (.fwake (fIn i) intMax)
  | .ctCas i => some (.cas 0 (-1) i)
  | .rcCas _ => some (.cas 1 0 1)
  | .waLoad _ => some (.load 0)
  | .wA _ => some (.load (fIn 0))
  | .wB _ => some (.load (fIn 0))
  | .wC _ cur => some (.fwait (fIn 0) cur false)
  | .waCas _ => some (.cas 0 (-1) 0)
  | .waLoad2 _ => some (.load 0)
  | .rcVal _ w => some (.store 2 w)
  | .rcStore _ => some (.store 1 2)
  | .rcWake _ => some (.fwake 1 intMax)
  | .gtLoad => some (.load 1)
  | .gwLoad => some (.load 1)
  | .gwWait cur => some (.fwait 1 cur false)
  | .gtVal => some (.load 2)

def cont : PC → Int → PC
  | .idle, _ => .idle
  | .done r, _ => .done r
  | .bad, _ => .bad
  | .pbDone i, _ => .pbDone i
  | .pbLoad i, r => if r = 2 then .pbDone i else .done 0
  | .inStore i, _ => .inWake i
  | .inWake _, _ => .done 0
  | .ctCas _, r => if r = -1 then .rcCas false else .done 0
  | .rcCas g, r => if r = 0 then .waLoad g else if g then .gwLoad else .done 0
  | .waLoad g, r => if r = -1 then .wA g else .rcVal g r
  | .wA g, r => if r = 2 then .waCas g else .wB g
  | .wB g, r => if r = 2 then .waCas g else .wC g r
  | .wC g _, _ => .wB g
  | .waCas g, _ => .waLoad2 g
  | .waLoad2 g, r => .rcVal g r
  | .rcVal g _, _ => .rcStore g
  | .rcStore g, _ => .rcWake g
  | .rcWake g, _ => if g then .gtVal else .done 0
  | .gtLoad, r => if r = 2 then .gtVal else if r = 0 then .rcCas true else .gwLoad
  | .gwLoad, r => if r = 2 then .gtVal else .gwWait r
  | .gwWait _, _ => .gwLoad
  | .gtVal, r => .done r

def idleOrDone : PC → Bool
  | .idle | .done _ | .pbDone _ => true
  | _ => false

def isEntry (N : Nat) : PC → Bool
  | .inStore i | .pbLoad i => decide (i < N)
  | .gtLoad => true
  | _ => false

def entry (N : Nat) (l l' : PC) : Bool :=
  (idleOrDone l && isEntry N l') || (match l, l' with | .pbDone i, .ctCas j => decide (i = j) | _, _ => false)

def proto (N : Nat) : Proto :=
  { L := PC, op := op, cont := cont, entry := entry N }

def init (N : Nat) : State (proto N) :=
  initState (proto N) PC.idle
    (fun f => if f = 0 then -1 else if f = 2 then -2 else if 10 ≤ f ∧ f < 10 + 2 * N ∧ f % 2 = 0 then 1 else 0)

def binding (N : Nat) : Trace.Binding (proto N) :=
  { fieldOf := All.fieldOf
    bits := fun f => if f = 0 then 64 else 32
    mkCall := fun name args _ =>
      match name, args with
      | "get", [] => some .gtLoad
      | _, _ => none
    retOf := fun l => match l with
      | .done r => some [r]
      | _ => none
    silentFld := fun f => f = 2 }

end Any

end Dispenso.WhenComb
