import DispensoVerif.Core.Trace
import DispensoVerif.Model.ConVecAlloc
/-
Model of concurrent growth of `dispenso::ConcurrentVector` (dispenso/concurrent_vector.h,
dispenso/detail/concurrent_vector_impl.h) — C33.  One model action per atomic operation:

  field 0            `size_`
  field 2b+1         `buffers_[b]`      (0 = null; a non-null pointer is an opaque non-zero token)
  field 2k+2         the element with index k (the harness's element type holds one atomic: constructing
                     it is a store of its tag; 0 = never constructed)

 * `emplace_back(v)` / `push_back`: `size_.fetch_add(1)`, `allocAsNecessaryImpl(binfo)` (at the trigger
   index: load `buffers_[b+1]`, if null allocate and store it; then spin on `buffers_[b]`), the
   pointer fetch of the returned iterator, construction of the element;
 * `grow_by(d, …)` / `grow_by_generator` / `grow_by(first, last)`: `size_.fetch_add(d)`, the range variant of
   `allocAsNecessaryImpl` — counting pass (one load per visited bucket), one `cv::alloc`, assigning pass
   (`tryAssignBuffer`: load, then store if null), wait loops over the buckets of the range — then the
   iterator's pointer fetch and the construction of the `d` elements (values `v + stp·j`);
 * `grow_to_at_least(n, v)`: load `size_`, then `grow_by(n − size, v)` or an iterator to element `n − 1`
   (no CAS loop in the code: two concurrent callers may both grow);
 * a reader of an element that existed before the concurrent phase.
`GCfg`: realloc strategy, first-bucket shift, the size `n0` at the start of the concurrent phase and
whether the traits use the pointer-caching iterator.  Sequentially consistent; `cachedPtrs_` (plain
mirror of `buffers_`) and `shouldDealloc_` are not modelled here (see `ConVecAlloc`).  Core Lean only.
-/
namespace Dispenso.ConVecGrow
open Dispenso.Conc Dispenso.ConVec Dispenso.ConVecAlloc

structure GCfg where
  st : Strat
  s : Nat
  n0 : Nat
  fastIter : Bool

def fSize : Fld := 0
def fBuf (b : Nat) : Fld := 2 * b + 1
def fEl (k : Nat) : Fld := 2 * k + 2
/-- the pointer a call that reserved index `i` publishes -/
def tok (i : Nat) : Int := (i : Int) + 1

def bkt (c : GCfg) (i : Nat) : Nat := (bucketAndSubIndex c.s i).bucket

inductive L where
  | idle
  /-- a growth call returned: it reserved `[i, i+d)` and constructed `v + stp·j` at `i + j` -/
  | done (i d : Nat) (v stp : Int)
  | rdone (r : Int)
  | tdone (n : Nat)
  | eAdd (v : Int)
  | eLoadNext (i : Nat) (v : Int)
  | eStoreNext (i : Nat) (v : Int)
  | eWait (i : Nat) (v : Int)
  | eIter (i : Nat) (v : Int)
  | eWrite (i : Nat) (v : Int)
  | tLoad (n : Nat) (v : Int)
  | tIter (n : Nat)
  | gAdd (d : Nat) (v stp : Int)
  | gCount (i d : Nat) (v stp : Int) (b cap : Nat) (rest : List (Nat × Nat)) (acc : Nat)
  | gAssign (i d : Nat) (v stp : Int) (b : Nat) (rest : List (Nat × Nat)) (hv : Bool)
  | gStore (i d : Nat) (v stp : Int) (b : Nat) (rest : List (Nat × Nat)) (hv : Bool)
  | gWait (i d : Nat) (v stp : Int) (b : Nat)
  | gIter (i d : Nat) (v stp : Int)
  | gWrite (i d : Nat) (v stp : Int) (j : Nat)
  | rRead (k : Nat)
  deriving Repr, DecidableEq

def op (c : GCfg) : L → Option AOp
  | .idle => none
  | .done _ _ _ _ => none
  | .rdone _ => none
  | .tdone _ => none
  | .eAdd _ => some (.fadd fSize 1)
  | .eLoadNext i _ => some (.load (fBuf (bkt c i + 1)))
  | .eStoreNext i _ => some (.store (fBuf (bkt c i + 1)) (tok i))
  | .eWait i _ => some (.load (fBuf (bkt c i)))
  | .eIter i _ => some (.load (fBuf (bkt c i)))
  | .eWrite i v => some (.store (fEl i) v)
  | .tLoad _ _ => some (.load fSize)
  | .tIter n => some (.load (fBuf (bkt c (n - 1))))
  | .gAdd d _ _ => some (.fadd fSize d)
  | .gCount _ _ _ _ b _ _ _ => some (.load (fBuf b))
  | .gAssign _ _ _ _ b _ _ => some (.load (fBuf b))
  | .gStore i _ _ _ b _ _ => some (.store (fBuf b) (tok i))
  | .gWait _ _ _ _ b => some (.load (fBuf b))
  | .gIter i _ _ _ => some (.load (fBuf (bkt c i)))
  | .gWrite i _ v stp j => some (.store (fEl (i + j)) (v + stp * j))
  | .rRead k => some (.load (fEl k))

/-- the buckets the range variant visits for the reservation `[i, i+d)` -/
def targets (c : GCfg) (i d : Nat) : List (Nat × Nat) :=
  rangeTargets c.st (bucketAndSubIndex c.s i) d (bucketAndSubIndex c.s (i + d))

def startWrite (i d : Nat) (v stp : Int) : L := if d = 0 then .done i d v stp else .gWrite i d v stp 0

def afterWait (c : GCfg) (i d : Nat) (v stp : Int) : L :=
  if c.fastIter then .gIter i d v stp else startWrite i d v stp

/-- continue the assigning pass with the remaining visited buckets, or start the wait loops -/
def nextAssign (c : GCfg) (i d : Nat) (v stp : Int) (hv : Bool) : List (Nat × Nat) → L
  | [] => .gWait i d v stp (bkt c i)
  | (b, _) :: rest => .gAssign i d v stp b rest hv

def cont (c : GCfg) : L → Int → L
  | .idle, _ => .idle
  | .done i d v stp, _ => .done i d v stp
  | .rdone r, _ => .rdone r
  | .tdone n, _ => .tdone n
  | .eAdd v, r =>
    let i := r.toNat
    let bi := bucketAndSubIndex c.s i
    if bi.bucketIndex = allocCheckIndex c.st bi.bucketCapacity then .eLoadNext i v else .eWait i v
  | .eLoadNext i v, r => if r = 0 then .eStoreNext i v else .eWait i v
  | .eStoreNext i v, _ => .eWait i v
  | .eWait i v, r => if r = 0 then .eWait i v else .eIter i v
  | .eIter i v, _ => .eWrite i v
  | .eWrite i v, _ => .done i 1 v 0
  | .tLoad n v, r =>
    if r.toNat < n then .gAdd (n - r.toNat) v 0 else if c.fastIter then .tIter n else .tdone n
  | .tIter n, _ => .tdone n
  | .gAdd d v stp, r =>
    let i := r.toNat
    match targets c i d with
    | [] => .gWait i d v stp (bkt c i)
    | (b, cap) :: rest => .gCount i d v stp b cap rest 0
  | .gCount i d v stp _ cap rest acc, r =>
    let acc' := if r = 0 then acc + cap else acc
    match rest with
    | (b', cap') :: rest' => .gCount i d v stp b' cap' rest' acc'
    | [] => nextAssign c i d v stp (decide (acc' ≠ 0)) (targets c i d)
  | .gAssign i d v stp b rest hv, r =>
    if r = 0 then .gStore i d v stp b rest hv else nextAssign c i d v stp hv rest
  | .gStore i d v stp _ rest hv, _ => nextAssign c i d v stp hv rest
  | .gWait i d v stp b, r =>
    if r = 0 then .gWait i d v stp b
    else if b < bkt c (i + d) then .gWait i d v stp (b + 1) else afterWait c i d v stp
  | .gIter i d v stp, _ => startWrite i d v stp
  | .gWrite i d v stp j, _ => if j + 1 < d then .gWrite i d v stp (j + 1) else .done i d v stp
  | .rRead _, r => .rdone r

def isIdle : L → Bool
  | .idle | .done _ _ _ _ | .rdone _ | .tdone _ => true
  | _ => false

/-- client contract: element tags are non-zero (0 marks a slot that was never constructed); a
    reader only touches elements that existed before the concurrent phase -/
def isEntry (c : GCfg) : L → Bool
  | .eAdd v => decide (0 < v)
  | .gAdd _ v stp => (decide (0 < v) && decide (0 ≤ stp)) || (decide (v < 0) && decide (stp = 0))
  | .tLoad n v => decide (1 ≤ n) && decide (v ≠ 0)
  | .rRead k => decide (k < c.n0)
  | _ => false

def proto (c : GCfg) : Proto :=
  { L := L, op := op c, cont := cont c, entry := fun l l' => isIdle l && isEntry c l' }

/-- initial memory: `size_ = n0`, the buckets of `pre` allocated, elements `< n0` hold `el0` -/
def initMem (c : GCfg) (pre : Nat → Bool) (el0 : Nat → Int) : Fld → Int := fun f =>
  if f = 0 then (c.n0 : Int)
  else if f % 2 = 1 then (if pre ((f - 1) / 2) then -(((f - 1) / 2 : Nat) : Int) - 1 else 0)
  else if (f - 2) / 2 < c.n0 then el0 ((f - 2) / 2) else 0

def init (c : GCfg) (pre : Nat → Bool) (el0 : Nat → Int) : State (proto c) :=
  initState (proto c) L.idle (initMem c pre el0)

def parseField (s : String) : Option Fld :=
  if s = "size" then some fSize else
  match s.splitOn "+" with
  | ["buf", n] => n.toNat?.map fBuf
  | ["el", n] => n.toNat?.map fEl
  | _ => none

def binding (c : GCfg) : Trace.Binding (proto c) :=
  { fieldOf := parseField
    bits := fun f => if f % 2 = 0 ∧ f ≠ 0 then 32 else 64
    mkCall := fun name args _ =>
      match name, args with
      | "emplace_back", [v] => some (.eAdd v)
      | "grow_by", [d, v, stp] => if d < 0 then none else some (.gAdd d.toNat v stp)
      | "grow_to_at_least", [n, v] => if n < 1 then none else some (.tLoad n.toNat v)
      | "read", [k] => if k < 0 then none else some (.rRead k.toNat)
      | _, _ => none
    retOf := fun l => match l with
      | .done i _ _ _ => some [(i : Int)]
      | .rdone r => some [r]
      | .tdone n => some [(n : Int) - 1]
      | _ => none
    -- pointers: only null / non-null is compared (by the driver plug-in)
    opaqueFld := fun f => f % 2 = 1
    -- declared orders of concurrent_vector_impl.h: bucket pointers are published with release and
    -- read with acquire on the allocation paths
    reqOrder := fun l => match l with
      | .eLoadNext _ _ => 2 | .eStoreNext _ _ => 3 | .eWait _ _ => 2
      | .gCount _ _ _ _ _ _ _ _ => 2 | .gAssign _ _ _ _ _ _ _ => 2 | .gStore _ _ _ _ _ _ _ => 3
      | .gWait _ _ _ _ _ => 2
      | _ => 0 }

end Dispenso.ConVecGrow
