/-
Model of `dispenso::Graph` / `BiPropGraph`, subgraph clearing, `setAllNodesIncomplete`,
`ForwardPropagator` and the wave algorithm of the single-thread / parallel_for executors
(dispenso/graph.{h,cpp}, graph_executor.{h,cpp}, detail/graph_executor_impl.h) — C30, C31.
Nodes are numbered in creation order. `inc` is `numIncompletePredecessors_` (`kCompleted` = 2^64-1
means completed; arithmetic wraps modulo 2^64 like the `size_t` atomic). Dependents lists keep the
code's order (including the swap-with-last removal of `removePredecessorDependencies`), so the
single-thread executor's run order is reproduced exactly.
Core Lean only.
-/
namespace Dispenso.Graph

def kCompleted : Nat := 18446744073709551615
def wrap (x : Int) : Nat := (x % 18446744073709551616).toNat

structure NodeS where
  dependents : List Nat
  numPred : Nat
  inc : Nat
  sub : Nat
  biSet : Option Nat
  alive : Bool
  deriving Repr, DecidableEq

structure G where
  nodes : List NodeS            -- index = node id
  subs : List (List Nat)        -- subgraph index ↦ its node ids in insertion order
  biSets : List (List Nat)      -- set id ↦ members, sorted
  biProp : Bool                 -- BiPropGraph? (decNumIncompletePredecessors skips completed nodes)
  deriving Repr

def G.init (biProp : Bool) : G := { nodes := [], subs := [[]], biSets := [], biProp := biProp }

def dead : NodeS := { dependents := [], numPred := 0, inc := kCompleted, sub := 0, biSet := none, alive := false }

def G.node (g : G) (i : Nat) : NodeS := g.nodes.getD i dead
def G.setNode (g : G) (i : Nat) (n : NodeS) : G := { g with nodes := g.nodes.set i n }
def completed (n : NodeS) : Bool := n.inc = kCompleted

def addSubgraph (g : G) : G × Nat := ({ g with subs := g.subs ++ [[]] }, g.subs.length)

def addNode (g : G) (sub : Nat) : G × Nat :=
  let id := g.nodes.length
  let n : NodeS := { dependents := [], numPred := 0, inc := 0, sub := sub, biSet := none, alive := true }
  ({ g with nodes := g.nodes ++ [n], subs := g.subs.set sub (g.subs.getD sub [] ++ [id]) }, id)

/-- n.dependsOn(p) (repaired code: the incomplete-predecessor count follows) -/
def dependsOn (g : G) (n p : Nat) : G :=
  let np := g.node p
  let g1 := g.setNode p { np with dependents := np.dependents ++ [n] }
  let nn := g1.node n
  let inc' := if ¬ completed nn ∧ ¬ completed np then wrap (nn.inc + 1) else nn.inc
  g1.setNode n { nn with numPred := nn.numPred + 1, inc := inc' }

def insertSorted (x : Nat) : List Nat → List Nat
  | [] => [x]
  | y :: ys => if x < y then x :: y :: ys else if x = y then y :: ys else y :: insertSorted x ys

def unionSorted (a b : List Nat) : List Nat := b.foldl (fun acc x => insertSorted x acc) a

/-- n.biPropDependsOn(p) -/
def biPropDependsOn (g : G) (n p : Nat) : G :=
  let g := dependsOn g n p
  let sn := (g.node n).biSet
  let sp := (g.node p).biSet
  match sn, sp with
  | none, none =>
    let id := g.biSets.length
    let g1 := { g with biSets := g.biSets ++ [insertSorted p (insertSorted n [])] }
    let g2 := g1.setNode n { g1.node n with biSet := some id }
    g2.setNode p { g2.node p with biSet := some id }
  | some a, some b =>
    -- repaired code: set_union(*this->set, *node.set) and every member of the absorbed set is repointed
    if a = b then g else
    let members := g.biSets.getD b []
    let merged := unionSorted (g.biSets.getD a []) members
    let g1 := { g with biSets := (g.biSets.set a merged).set b [] }
    members.foldl (fun g m => g.setNode m { g.node m with biSet := some a }) g1
  | none, some b =>
    let g1 := { g with biSets := g.biSets.set b (insertSorted n (g.biSets.getD b [])) }
    g1.setNode n { g1.node n with biSet := some b }
  | some a, none =>
    let g1 := { g with biSets := g.biSets.set a (insertSorted p (g.biSets.getD a [])) }
    g1.setNode p { g1.node p with biSet := some a }

/-- all live node ids in `forEachNode` order (subgraph by subgraph) -/
def allNodes (g : G) : List Nat := g.subs.flatten

/-! ### SubgraphT::clear -/

def kToDelete : Nat := kCompleted

def decrementDependentCounters (g : G) (sub : Nat) : G :=
  (g.subs.getD sub []).foldl (fun g id =>
    let n := g.node id
    let g1 := n.dependents.foldl (fun g d =>
      let dn := g.node d
      let inc' := if ¬ completed (g.node id) ∧ ¬ completed dn then wrap ((dn.inc : Int) - 1) else dn.inc
      g.setNode d { dn with numPred := dn.numPred - 1, inc := inc' }) g
    -- removeFromBiPropSet
    match n.biSet with
    | some s => { g1 with biSets := g1.biSets.set s ((g1.biSets.getD s []).filter (· ≠ id)) }
    | none => g1) g

def markNodesWithPredecessors (g : G) (sub : Nat) : G × Nat :=
  (g.subs.getD sub []).foldl (fun (acc : G × Nat) id =>
    let n := acc.1.node id
    if n.numPred ≠ 0 then (acc.1.setNode id { n with numPred := kToDelete }, acc.2 + n.numPred) else acc) (g, 0)

/-- the swap-with-last removal loop over one dependents list; returns the new list and how many
    removals are still owed; stops early when the budget reaches zero -/
def removeMarked (g : G) : Nat → List Nat → Nat → Nat → List Nat × Nat
  | 0, deps, _, budget => (deps, budget)
  | fuel + 1, deps, i, budget =>
    if i < deps.length then
      if (g.node (deps.getD i 0)).numPred = kToDelete then
        let last := deps.getD (deps.length - 1) 0
        let deps' := (deps.set i last).dropLast
        if budget - 1 = 0 then (deps', 0) else removeMarked g fuel deps' i (budget - 1)
      else removeMarked g fuel deps (i + 1) budget
    else (deps, budget)

def removePredecessorDependencies (g : G) (sub : Nat) (budget : Nat) : G :=
  let others := (g.subs.zipIdx.filter fun p => p.2 ≠ sub).map (·.1) |>.flatten
  (others.foldl (fun (acc : G × Nat) id =>
    if acc.2 = 0 then acc else
    let n := acc.1.node id
    let (deps', b') := removeMarked acc.1 (n.dependents.length + 1) n.dependents 0 acc.2
    (acc.1.setNode id { n with dependents := deps' }, b')) (g, budget)).1

def clearSubgraph (g : G) (sub : Nat) : G :=
  let g1 := decrementDependentCounters g sub
  let (g2, total) := markNodesWithPredecessors g1 sub
  let g3 := if total ≠ 0 then removePredecessorDependencies g2 sub total else g2
  let ids := g3.subs.getD sub []
  let g4 := ids.foldl (fun g id => g.setNode id dead) g3
  { g4 with subs := g4.subs.set sub [] }

/-! ### state changes -/

def setAllNodesIncomplete (g : G) : G :=
  (allNodes g).foldl (fun g id => let n := g.node id; g.setNode id { n with inc := n.numPred }) g

def setIncomplete (g : G) (id : Nat) : G :=
  let n := g.node id
  if completed n then g.setNode id { n with inc := 0 } else g

def setCompletedNode (g : G) (id : Nat) : G := g.setNode id { g.node id with inc := kCompleted }

def addIncompletePredecessor (g : G) (d : Nat) : G :=
  let n := g.node d
  g.setNode d { n with inc := if completed n then 1 else wrap (n.inc + 1) }

/-- one BFS level of ForwardPropagator -/
def propLevel (g : G) (visited : List Nat) (level : List Nat) : G × List Nat × List Nat :=
  level.foldl (fun (acc : G × List Nat × List Nat) id =>
    (acc.1.node id).dependents.foldl (fun (a : G × List Nat × List Nat) d =>
      let g1 := addIncompletePredecessor a.1 d
      if a.2.1.contains d then (g1, a.2.1, a.2.2) else (g1, d :: a.2.1, a.2.2 ++ [d])) acc) (g, visited, [])

def propLoop : Nat → G → List Nat → List Nat → G × List Nat
  | 0, g, visited, _ => (g, visited)
  | fuel + 1, g, visited, level =>
    if level = [] then (g, visited) else
    let (g1, visited1, next) := propLevel g visited level
    propLoop fuel g1 visited1 next

/-- ForwardPropagator::operator() -/
def forwardPropagate (g : G) : G :=
  let roots := (allNodes g).filter fun id => ¬ completed (g.node id)
  -- repaired code: every incomplete node restarts from zero and is recounted by the visit below
  let g0 := roots.foldl (fun g id => g.setNode id { g.node id with inc := 0 }) g
  let (g1, visited) := propLoop ((allNodes g).length + 1) g0 roots roots
  if ¬ g.biProp then g1 else
  -- propagateIncompleteStateBidirectionally: every member of a touched set becomes incomplete …
  let groups := (visited.filterMap fun id => (g1.node id).biSet).eraseDups
  let members := (groups.map fun s => g1.biSets.getD s []).flatten
  let (g2, newly) := members.foldl (fun (acc : G × List Nat) id =>
    if completed (acc.1.node id) then (setIncomplete acc.1 id, acc.2 ++ [id]) else acc) (g1, [])
  -- … and the newly incomplete ones count as incomplete predecessors of their incomplete dependents
  newly.foldl (fun g id => (g.node id).dependents.foldl (fun g d =>
    let n := g.node d
    if ¬ completed n then g.setNode d { n with inc := wrap (n.inc + 1) } else g) g) g2

/-! ### wave executor (SingleThreadExecutor; ParallelForExecutor runs the same waves) -/

def decInc (g : G) (d : Nat) : G × Bool :=
  let n := g.node d
  if g.biProp ∧ completed n then (g, false)
  else (g.setNode d { n with inc := wrap ((n.inc : Int) - 1) }, n.inc = 1)

def runWave (g : G) (wave : List Nat) : G × List Nat :=
  wave.foldl (fun (acc : G × List Nat) id =>
    let g1 := acc.1.setNode id { acc.1.node id with inc := kCompleted }      -- node->run()
    (g1.node id).dependents.foldl (fun (a : G × List Nat) d =>
      let (g2, ready) := decInc a.1 d
      (g2, if ready then a.2 ++ [d] else a.2)) (g1, acc.2)) (g, [])

def execLoop : Nat → G → List Nat → List Nat → G × List Nat
  | 0, g, _, log => (g, log)
  | fuel + 1, g, wave, log =>
    if wave = [] then (g, log) else
    let (g1, next) := runWave g wave
    execLoop fuel g1 next (log ++ wave)

/-- returns the state afterwards and the run order -/
def execute (g : G) : G × List Nat :=
  let start := (allNodes g).filter fun id => (g.node id).inc = 0
  execLoop ((allNodes g).length + 1) g start []

end Dispenso.Graph
