/-
Model of `dispenso::pipeline` (dispenso/pipeline.h, dispenso/detail/pipeline_impl.h) together with the
parts of `ConcurrentTaskSet` it relies on (dispenso/task_set.h, detail/task_set_impl.h, task_set.cpp)
— C27, C28, C29.

Granularity: one model step per access to shared state (the schedulers' `resources_` /
`outstanding_` words, the local queues, the task set's `outstandingTaskCount_` / `guardException_` /
`canceled_` words, the pool's work queue, the generator's completion count) and per begin / end of a
user stage function.  Every thread (thread 0 = the caller of `pipeline()`, threads 1..pool = pool
threads) has a stack of frames because the task set may run a scheduled closure inline in the
scheduling thread, `tryExecuteNext` runs pool tasks inside the wait loops, and a serial stage runs its
successor inline; an exception in flight is a frame `exc e` on top of the stack that is unwound
frame by frame (each RAII guard of the code is one unwinding step).

Abstractions (all over-approximations of the code's behaviour):
* `ConcurrentTaskSet::schedule` decides between inline execution and packaging + enqueueing from
  load figures of the pool; the model allows either at every call (`Choice.inl` / `Choice.pkg`), and
  does not bound the inline depth.
* The local `moodycamel::ConcurrentQueue`s and the pool's queues are bags; `try_dequeue` may fail
  spuriously (`Choice.deqFail`, `Choice.takeFail`) except in `~Impl`, where nothing runs concurrently.
* Closures in a queue / in the pool are anonymous carriers (`qn s`, `pool k` are counts); the
  items whose stage-`s` closure exists and has not entered the stage function are the bag `pend s`,
  and the identity is bound when the stage function begins or the closure is released (a closure's
  identity is not observable before).
* The pool's own wake / sleep machinery is not modelled: an idle pool thread may take any queued task.

`Fix` selects the repaired (true) or original (false) behaviour of four places; the theorems are about
the repaired code, the original behaviours are kept for the witnesses of the defects:
  `skip`   packageTask's skip branch releases a wrapped OnceFunction (detail/task_set_impl.h)
  `dtor`   `LimitGatedScheduler::Impl::~Impl` releases what is left in the local queue
  `guard`  the generator closure owns the completion guard (signals when destroyed, also unrun)
  `catch_` the generator closure catches and records exceptions (it may run inline in `execute()`)
Core Lean only.
-/
namespace Dispenso.Pipe

abbrev Exc := Nat × Nat   -- (stage, item tag) that threw

inductive Task where
  | gen            -- a generator instance
  | u (s : Nat)    -- closure of the unlimited stage `s` (scheduled to the task set directly)
  | q (s : Nat)    -- closure of the limited stage `s` (OnceFunction from the local queue)
  deriving DecidableEq, Repr

/-- what a stage function left behind: a value for the next stage, or nothing (filtered out, or the sink) -/
inductive Out where
  | fwd | stop
  deriving DecidableEq, Repr

structure Fix where
  skip : Bool
  dtor : Bool
  guard : Bool
  catch_ : Bool
  deriving DecidableEq, Repr

def Fix.all : Fix := ⟨true, true, true, true⟩
def Fix.none : Fix := ⟨false, false, false, false⟩

structure Cfg where
  n : Nat                  -- stages after the generator; stage `n` is the sink
  lim : Nat → Option Nat   -- stage limit, `none` = unlimited (kStageNoLimit)
  filt : Nat → Bool        -- the stage may filter (returns OpResult / optional)
  genInst : Nat            -- generator instances: max 1 (min poolThreads generatorLimit)
  pool : Nat               -- pool threads
  fix : Fix

/-- `LimitGatedScheduler::schedule` of the next stage, executed inside the calling closure -/
inductive HPc where
  | add | enq | acq | deq | giveR | giveF
  deriving DecidableEq, Repr

inductive GPc where
  | chk | call | in_ | down (i : Nat) (h : HPc) | fin
  deriving DecidableEq, Repr

inductive QPc where
  | in_ | cb (o : Out) | rel (o : Out) | down (h : HPc) | relA | fin
  deriving DecidableEq, Repr

inductive UPc where
  | chk | beg | skipFin
  deriving DecidableEq, Repr

inductive RPc where
  | in_ | down (h : HPc) | fin
  deriving DecidableEq, Repr

inductive PPc where
  | chk | skipQ | dec (d : Bool) | dtor
  deriving DecidableEq, Repr

inductive TPc where
  | cas | st | cn
  deriving DecidableEq, Repr

/-- who owns a running closure (and destroys it when its body is over): a packageTask wrapper, or the
    `schedule()` call that runs it inline (a temporary) -/
inductive Own where
  | pk | tm
  deriving DecidableEq, Repr

inductive Frame where
  | cs (k : Task) (enq : Bool)        -- ConcurrentTaskSet::schedule(k); enq: packaged, about to enqueue
  | pkg (k : Task) (pc : PPc)          -- packageTask wrapper (before / after the body of its closure)
  | tmp (k : Task) (d : Bool)          -- closure that was run inline or dropped, about to be destroyed
  | ts (e : Exc) (pc : TPc)            -- trySetCurrentException
  | exc (e : Exc)                      -- exception in flight
  | gen (o : Own) (pc : GPc)           -- generator closure body
  | qi (s : Nat)                       -- queue closure of stage s entered
  | qr (s i : Nat) (pc : QPc)
  | ui (s : Nat) (o : Own) (pc : UPc)  -- closure body of an unlimited stage
  | ur (s i : Nat) (o : Own) (pc : RPc)
  deriving DecidableEq, Repr

/-- what is left of a closure's owner once the body is over; `d`: the closure still owns something -/
def ownerCont (o : Own) (k : Task) (d : Bool) : Frame :=
  match o with
  | .pk => .pkg k (.dec d)
  | .tm => .tmp k d

inductive WPc where
  | l0 | l1 | dr | drDec | drRel | l2 | ex | aq | aqB | aqC | aqD | aqR | aqE
  deriving DecidableEq, Repr

inductive CPc where
  | c0 | c1 | c2 | t0 | t1 | t2
  deriving DecidableEq, Repr

/-- program counter of the thread that called `pipeline()` (when none of its inline frames is active) -/
inductive MPc where
  | exec (k : Nat)                               -- Generator::execute, k instances scheduled
  | compl                                        -- completion_->wait(0)
  | w (s : Nat) (pc : WPc)                       -- LimitGatedScheduler::wait of stage s
  | cts (d : Bool) (pc : CPc) (r : Option Exc)   -- ConcurrentTaskSet::wait (d: in the destructor)
  | dt (s : Nat) (r : Option Exc)                -- ~Impl of stage s
  | dtR (s : Nat) (r : Option Exc)
  | done (r : Option Exc)                        -- pipeline() is over; r: the exception it threw
  | term                                         -- std::terminate (exception out of a destructor)
  deriving DecidableEq, Repr

inductive Choice where
  | go
  | inl | pkg | drop
  | deq | deqFail
  | take (k : Task) | takeFail
  | begin (i : Nat)
  | rel (i : Nat)
  | item (i : Nat) | done | gthr (tag : Nat)
  | pass | filt | throw
  deriving DecidableEq, Repr

structure Sh where
  res : Nat → Int
  out : Nat → Int
  qn : Nat → Nat
  pool : List Task
  otc : Int
  guard : Nat
  canceled : Bool
  compl : Int
  pend : Nat → List Nat
  nextId : Nat
  mpc : MPc
  -- ghost state
  exw : Option Exc            -- the stored exception_
  casLog : List Exc           -- exceptions in the order of their trySetCurrentException CAS
  thrown : Nat                -- number of throws so far
  handling : Int              -- exceptions in flight or inside trySetCurrentException
  stuckC : Nat                -- generator closures that will never signal the completion event
  made : Nat → Nat            -- made i: times the generator returned tag i
  arr : Nat → Nat → Nat       -- arr s i: times item i was handed to stage s
  ran : Nat → Nat → Nat       -- times stage s's function was entered with item i
  ended : Nat → Nat → Nat
  passed : Nat → Nat → Nat    -- times it returned a value for the next stage
  stopped : Nat → Nat → Nat   -- times it ended otherwise (filtered, sink, threw)
  rel : Nat → Nat → Nat       -- times an unprocessed stage-s closure of item i was released
  lost : Nat → Nat            -- resource slots of stage s that were never given back
  borrowed : Nat → Int        -- fetch_sub's of resources_ of stage s that found no slot and are not yet undone
  stuck : Nat → Nat           -- outstanding_ increments of stage s that are never undone
  leaked : Nat → Nat          -- stage-s closures dropped without being released

def upd {α : Type} (f : Nat → α) (k : Nat) (v : α) : Nat → α := fun j => if j = k then v else f j
def upd2 (f : Nat → Nat → Nat) (s i : Nat) (v : Nat) : Nat → Nat → Nat :=
  fun a b => if a = s ∧ b = i then v else f a b

@[inline] def bump (f : Nat → Nat → Nat) (s i : Nat) : Nat → Nat → Nat := upd2 f s i (f s i + 1)

structure St where
  sh : Sh
  thr : Nat → List Frame

def Sh.init (c : Cfg) : Sh :=
  { res := fun s => match c.lim s with | some l => l | none => 0
    out := fun _ => 0, qn := fun _ => 0, pool := [], otc := 0, guard := 0, canceled := false
    compl := c.genInst, pend := fun _ => [], nextId := 0, mpc := .exec 0
    exw := none, casLog := [], thrown := 0, handling := 0, stuckC := 0
    made := fun _ => 0, arr := fun _ _ => 0, ran := fun _ _ => 0, ended := fun _ _ => 0, passed := fun _ _ => 0, stopped := fun _ _ => 0
    rel := fun _ _ => 0, lost := fun _ => 0, borrowed := fun _ => 0, stuck := fun _ => 0, leaked := fun _ => 0 }

def St.init (c : Cfg) : St := { sh := Sh.init c, thr := fun _ => [] }

/-- does a closure of kind `k` still own something once its body is over? (the generator's guard) -/
def ownsAfter (c : Cfg) : Task → Bool
  | .gen => c.fix.guard
  | _ => false

/-- result of a step of the inlined `LimitGatedScheduler::schedule` -/
inductive HRes where
  | cont (h : HPc)
  | push (f : Frame) (h : Option HPc)
  | fin

/-- `LimitGatedScheduler::schedule(item i)` of stage `s` (called by the previous stage's closure) -/
def stepH (c : Cfg) (sh : Sh) (s i : Nat) : HPc → Choice → Option (Sh × HRes)
  | .add, .go =>
    let sh1 := { sh with out := upd sh.out s (sh.out s + 1) }
    match c.lim s with
    | none => some ({ sh1 with pend := upd sh.pend s (sh.pend s ++ [i]) }, .push (.cs (.u s) false) none)
    | some _ => some (sh1, .cont .enq)
  | .enq, .go =>
    some ({ sh with qn := upd sh.qn s (sh.qn s + 1), pend := upd sh.pend s (sh.pend s ++ [i]) }, .cont .acq)
  | .acq, .go =>
    if 0 < sh.res s then some ({ sh with res := upd sh.res s (sh.res s - 1) }, .cont .deq)
    else some ({ sh with res := upd sh.res s (sh.res s - 1), borrowed := upd sh.borrowed s (sh.borrowed s + 1) },
               .cont .giveF)
  | .deq, .deq =>
    if 0 < sh.qn s then
      some ({ sh with qn := upd sh.qn s (sh.qn s - 1) }, .push (.cs (.q s) false) (some .acq))
    else none
  | .deq, .deqFail => some (sh, .cont .giveR)
  | .giveR, .go => some ({ sh with res := upd sh.res s (sh.res s + 1) }, .fin)
  | .giveF, .go =>
    some ({ sh with res := upd sh.res s (sh.res s + 1), borrowed := upd sh.borrowed s (sh.borrowed s - 1) }, .fin)
  | _, _ => none

/-- the stack after a step of the inlined scheduler: `mk h` is the calling closure's frame while the
    scheduler is at `h`, `fin` its frame once `schedule` has returned -/
def wrapH (mk : HPc → Frame) (fin : Frame) (rest : List Frame) : HRes → List Frame
  | .cont h' => mk h' :: rest
  | .push f (some h') => f :: mk h' :: rest
  | .push f none => f :: fin :: rest
  | .fin => fin :: rest

def stepDown (c : Cfg) (sh : Sh) (s i : Nat) (h : HPc) (ch : Choice) (mk : HPc → Frame) (fin : Frame)
    (rest : List Frame) : Option (Sh × List Frame) :=
  match stepH c sh s i h ch with
  | some (sh', r) => some (sh', wrapH mk fin rest r)
  | none => none

/-- `trySetCurrentException` for the exception `e` -/
def stepTs (sh : Sh) (rest : List Frame) (e : Exc) : TPc → Choice → Option (Sh × List Frame)
  | .cas, .go =>
    if sh.guard = 0 then some ({ sh with guard := 1, casLog := sh.casLog ++ [e] }, .ts e .st :: rest)
    else some ({ sh with casLog := sh.casLog ++ [e], handling := sh.handling - 1 }, rest)
  | .st, .go => some ({ sh with guard := 2, exw := some e }, .ts e .cn :: rest)
  | .cn, .go => some ({ sh with canceled := true, handling := sh.handling - 1 }, rest)
  | _, _ => none

/-- release the unprocessed stage-`s` closure of item `i` (cleanupNotRun / closure destruction) -/
def release (sh : Sh) (s i : Nat) : Option Sh :=
  if i ∈ sh.pend s then
    some { sh with pend := upd sh.pend s ((sh.pend s).erase i), rel := bump sh.rel s i }
  else none

/-- the stage function of stage `s` is entered with item `i` -/
def beginStage (sh : Sh) (s i : Nat) : Option Sh :=
  if i ∈ sh.pend s then
    some { sh with pend := upd sh.pend s ((sh.pend s).erase i), ran := bump sh.ran s i }
  else none

/-- A closure of kind `k` that still owns something is destroyed (`ch`: what is observed).
    * generator closure: its completion guard signals;
    * closure of an unlimited stage that did not run: its item is released;
    * queue closure (OnceFunction) of stage `s` that is dropped without having run: the repaired code
      releases it (`cleanupNotRun`), the original code forgets it; in both cases its resource slot and
      its `outstanding_` increment are never given back. -/
def destroyOwned (c : Cfg) (sh : Sh) : Task → Choice → Option Sh
  | .gen, .go => some { sh with compl := sh.compl - 1 }
  | .u s, .rel i => release sh s i
  | .q s, .rel i =>
    if c.fix.skip then
      release { sh with lost := upd sh.lost s (sh.lost s + 1), stuck := upd sh.stuck s (sh.stuck s + 1) } s i
    else none
  | .q s, .go =>
    if c.fix.skip then none
    else some { sh with lost := upd sh.lost s (sh.lost s + 1), stuck := upd sh.stuck s (sh.stuck s + 1),
                        leaked := upd sh.leaked s (sh.leaked s + 1) }
  | _, _ => none

/-- after the completion callback: hand the result to the next stage (`pipeNext_.execute`), or finish -/
def afterPc : Out → QPc
  | .fwd => .down .add
  | .stop => .fin

def afterSh (sh : Sh) (s i : Nat) : Out → Sh
  | .fwd => { sh with arr := bump sh.arr (s + 1) i }
  | .stop => sh

def stepGen (c : Cfg) (sh : Sh) (rest : List Frame) (o : Own) : GPc → Choice → Option (Sh × List Frame)
  | .chk, .go => some (sh, .gen o (if sh.guard = 0 then .call else .fin) :: rest)
  | .call, .go => some (sh, .gen o .in_ :: rest)
  | .in_, .item i =>
    -- the generator returns a new item (its tag has not been used before)
    if sh.made i = 0 then
      some ({ sh with nextId := sh.nextId + 1, made := upd sh.made i 1, arr := bump sh.arr 1 i },
            .gen o (.down i .add) :: rest)
    else none
  | .in_, .done => some (sh, .gen o .fin :: rest)
  | .in_, .gthr tag =>
    some ({ sh with thrown := sh.thrown + 1, handling := sh.handling + 1 }, .exc (0, tag) :: .gen o .chk :: rest)
  | .fin, .go =>
    -- original code: the completion guard is a local of the body
    some (if c.fix.guard then sh else { sh with compl := sh.compl - 1 }, ownerCont o .gen c.fix.guard :: rest)
  | _, _ => none

def stepQr (c : Cfg) (sh : Sh) (rest : List Frame) (s i : Nat) : QPc → Choice → Option (Sh × List Frame)
  | .in_, .pass =>
    if s < c.n then
      some ({ sh with ended := bump sh.ended s i, passed := bump sh.passed s i }, .qr s i (.cb .fwd) :: rest)
    else some ({ sh with ended := bump sh.ended s i, stopped := bump sh.stopped s i }, .qr s i (.cb .stop) :: rest)
  | .in_, .filt =>
    if c.filt s ∧ s < c.n then
      some ({ sh with ended := bump sh.ended s i, stopped := bump sh.stopped s i }, .qr s i (.cb .stop) :: rest)
    else none
  | .in_, .throw =>
    some ({ sh with ended := bump sh.ended s i, stopped := bump sh.stopped s i, thrown := sh.thrown + 1,
                    handling := sh.handling + 1 },
          .ts (s, i) .cas :: .qr s i .relA :: rest)
  | .cb o, .deq =>
    if 0 < sh.qn s then
      some (afterSh { sh with qn := upd sh.qn s (sh.qn s - 1) } s i o, .cs (.q s) false :: .qr s i (afterPc o) :: rest)
    else none
  | .cb o, .deqFail => some (sh, .qr s i (.rel o) :: rest)
  | .rel o, .go =>
    some (afterSh { sh with res := upd sh.res s (sh.res s + 1) } s i o, .qr s i (afterPc o) :: rest)
  | .relA, .go => some ({ sh with res := upd sh.res s (sh.res s + 1) }, .qr s i .fin :: rest)
  | .fin, .go => some ({ sh with out := upd sh.out s (sh.out s - 1) }, rest)
  | _, _ => none

def stepUr (c : Cfg) (sh : Sh) (rest : List Frame) (s i : Nat) (o : Own) : RPc → Choice → Option (Sh × List Frame)
  | .in_, .pass =>
    if s < c.n then
      some ({ sh with ended := bump sh.ended s i, passed := bump sh.passed s i, arr := bump sh.arr (s + 1) i },
            .ur s i o (.down .add) :: rest)
    else some ({ sh with ended := bump sh.ended s i, stopped := bump sh.stopped s i }, .ur s i o .fin :: rest)
  | .in_, .filt =>
    if c.filt s ∧ s < c.n then
      some ({ sh with ended := bump sh.ended s i, stopped := bump sh.stopped s i }, .ur s i o .fin :: rest)
    else none
  | .in_, .throw =>
    some ({ sh with ended := bump sh.ended s i, stopped := bump sh.stopped s i, thrown := sh.thrown + 1,
                    handling := sh.handling + 1 },
          .exc (s, i) :: .ur s i o .fin :: rest)
  | .fin, .go => some ({ sh with out := upd sh.out s (sh.out s - 1) }, ownerCont o (.u s) false :: rest)
  | _, _ => none

def stepUi (sh : Sh) (rest : List Frame) (s : Nat) (o : Own) : UPc → Choice → Option (Sh × List Frame)
  | .chk, .go => some (sh, .ui s o (if sh.guard = 0 then .beg else .skipFin) :: rest)
  | .beg, .begin i =>
    match beginStage sh s i with
    | some sh' => some (sh', .ur s i o .in_ :: rest)
    | none => none
  | .skipFin, .go =>
    -- the body did nothing: the closure still holds its item and is destroyed by its owner
    some ({ sh with out := upd sh.out s (sh.out s - 1) }, ownerCont o (.u s) true :: rest)
  | _, _ => none

def stepCs (c : Cfg) (sh : Sh) (rest : List Frame) (k : Task) : Bool → Choice → Option (Sh × List Frame)
  | false, .inl =>
    match k with
    | .gen => some (sh, .gen .tm .chk :: rest)
    | .u s => some (sh, .ui s .tm .chk :: rest)
    | .q s => some (sh, .qi s :: rest)
  | false, .pkg =>
    let sh' := { sh with otc := sh.otc + 1 }
    if c.pool = 0 then some (sh', .pkg k .chk :: rest) else some (sh', .cs k true :: rest)
  | false, .drop =>
    -- the set is canceled and the pool is loaded: schedule() returns without running or queueing `k`
    if sh.canceled then
      match k with
      | .q _ => some (sh, .tmp k true :: rest)
      | .u s => some ({ sh with stuck := upd sh.stuck s (sh.stuck s + 1) }, .tmp k true :: rest)
      | .gen =>
        some (if c.fix.guard then sh else { sh with stuckC := sh.stuckC + 1 }, .tmp k c.fix.guard :: rest)
    else none
  | true, .go => some ({ sh with pool := k :: sh.pool }, rest)
  | _, _ => none

def stepPkg (c : Cfg) (sh : Sh) (rest : List Frame) (k : Task) : PPc → Choice → Option (Sh × List Frame)
  | .chk, .go =>
    if sh.canceled then
      match k with
      | .q _ => some (sh, .pkg k .skipQ :: rest)
      | .u s => some ({ sh with stuck := upd sh.stuck s (sh.stuck s + 1) }, .pkg k (.dec true) :: rest)
      | .gen =>
        some (if c.fix.guard then sh else { sh with stuckC := sh.stuckC + 1 }, .pkg k (.dec c.fix.guard) :: rest)
    else
      match k with
      | .gen => some (sh, .gen .pk .chk :: rest)
      | .u s => some (sh, .ui s .pk .chk :: rest)
      | .q s => some (sh, .qi s :: .pkg k (.dec false) :: rest)
  | .skipQ, ch =>
    match k with
    | .q _ =>
      match destroyOwned c sh k ch with
      | some sh' => some (sh', .pkg k (.dec false) :: rest)
      | none => none
    | _ => none
  | .dec d, .go =>
    some ({ sh with otc := sh.otc - 1 }, if d then .pkg k .dtor :: rest else rest)
  | .dtor, ch =>
    -- the wrapper is destroyed after the count was decremented; only generator closures (their
    -- guard) and unrun closures of unlimited stages (their item) still own something then
    match k with
    | .q _ => none
    | _ =>
      match destroyOwned c sh k ch with
      | some sh' => some (sh', rest)
      | none => none
  | _, _ => none

def stepTmp (c : Cfg) (sh : Sh) (rest : List Frame) (k : Task) : Bool → Choice → Option (Sh × List Frame)
  | false, .go => some (sh, rest)
  | true, ch =>
    match destroyOwned c sh k ch with
    | some sh' => some (sh', rest)
    | none => none
  | _, _ => none

/-- unwinding: the exception `e` leaves the frame `g` -/
def stepUnwind (c : Cfg) (sh : Sh) (e : Exc) (g : Frame) (rest : List Frame) (ch : Choice) : Option (Sh × List Frame) :=
  match g with
  | .qr s i .fin => if ch = .go then some (sh, .ts e .cas :: .qr s i .fin :: rest) else none
  | .ur s _ o .fin =>
    if ch = .go then
      some ({ sh with out := upd sh.out s (sh.out s - 1) }, .exc e :: ownerCont o (.u s) false :: rest)
    else none
  | .gen o .chk =>
    if ch = .go then
      if c.fix.catch_ then some (sh, .ts e .cas :: .gen o .fin :: rest)
      else some (if c.fix.guard then sh else { sh with compl := sh.compl - 1 },
                 .exc e :: ownerCont o .gen c.fix.guard :: rest)
    else none
  | .tmp _ false => if ch = .go then some (sh, .exc e :: rest) else none
  | .tmp k true =>
    match destroyOwned c sh k ch with
    | some sh' => some (sh', .exc e :: rest)
    | none => none
  | .pkg k (.dec d) => if ch = .go then some (sh, .ts e .cas :: .pkg k (.dec d) :: rest) else none
  | _ => none

/-- one step of the topmost frame of a stack -/
def stepTop (c : Cfg) (sh : Sh) : List Frame → Choice → Option (Sh × List Frame)
  | [], _ => none
  | .exc e :: g :: rest, ch => stepUnwind c sh e g rest ch
  | .exc _ :: [], _ => none
  | .cs k b :: rest, ch => stepCs c sh rest k b ch
  | .pkg k pc :: rest, ch => stepPkg c sh rest k pc ch
  | .tmp k d :: rest, ch => stepTmp c sh rest k d ch
  | .ts e pc :: rest, ch => stepTs sh rest e pc ch
  | .gen o (.down i h) :: rest, ch =>
    -- pipeNext_.execute(item i): the first stage's scheduler, then back to the generator loop
    stepDown c sh 1 i h ch (fun h' => .gen o (.down i h')) (.gen o .chk) rest
  | .gen o pc :: rest, ch => stepGen c sh rest o pc ch
  | .qi s :: rest, ch =>
    match ch with
    | .begin i => match beginStage sh s i with
      | some sh' => some (sh', .qr s i .in_ :: rest)
      | none => none
    | _ => none
  | .qr s i (.down h) :: rest, ch =>
    stepDown c sh (s + 1) i h ch (fun h' => .qr s i (.down h')) (.qr s i .fin) rest
  | .qr s i pc :: rest, ch => stepQr c sh rest s i pc ch
  | .ui s o pc :: rest, ch => stepUi sh rest s o pc ch
  | .ur s i o (.down h) :: rest, ch =>
    stepDown c sh (s + 1) i h ch (fun h' => .ur s i o (.down h')) (.ur s i o .fin) rest
  | .ur s i o pc :: rest, ch => stepUr c sh rest s i o pc ch

/-- where `pipeline()` goes when execute()/wait() are over: the destructors of `pipes` and `tasks` -/
def startDtor (c : Cfg) (r : Option Exc) : MPc :=
  if c.fix.dtor then .dt c.n r else .cts true .c0 r

def nextWait (c : Cfg) (s : Nat) : MPc := if s < c.n then .w (s + 1) .l0 else .cts false .c0 none

def takeTask (sh : Sh) (k : Task) : Option Sh :=
  if k ∈ sh.pool then some { sh with pool := sh.pool.erase k } else none

/-- `LimitGatedScheduler::wait` of a limited stage `s` (drain loop, discard path) -/
def stepWaitL (c : Cfg) (sh : Sh) (s : Nat) : WPc → Choice → Option (Sh × List Frame)
  | .l0, .go => some ({ sh with mpc := if sh.out s = 0 then nextWait c s else .w s .l1 }, [])
  | .l1, .go => some ({ sh with mpc := .w s (if sh.guard = 0 then .l2 else .dr) }, [])
  | .dr, .deq =>
    if 0 < sh.qn s then some ({ sh with qn := upd sh.qn s (sh.qn s - 1), mpc := .w s .drDec }, []) else none
  | .dr, .deqFail => some ({ sh with mpc := nextWait c s }, [])
  | .drDec, .go => some ({ sh with out := upd sh.out s (sh.out s - 1), mpc := .w s .drRel }, [])
  | .drRel, .rel i =>
    match release sh s i with
    | some sh' => some ({ sh' with mpc := .w s .dr }, [])
    | none => none
  | .l2, .deq =>
    if 0 < sh.qn s then some ({ sh with qn := upd sh.qn s (sh.qn s - 1), mpc := .w s .aq }, []) else none
  | .l2, .deqFail => some ({ sh with mpc := .w s .ex }, [])
  | .ex, .take k =>
    match takeTask sh k with
    | some sh' => some ({ sh' with mpc := .w s .l0 }, [.pkg k .chk])
    | none => none
  | .ex, .takeFail => some ({ sh with mpc := .w s .l0 }, [])
  | .aq, .go =>
    if 0 < sh.res s then
      some ({ sh with res := upd sh.res s (sh.res s - 1), mpc := .w s .l0 }, [.cs (.q s) false])
    else some ({ sh with res := upd sh.res s (sh.res s - 1), borrowed := upd sh.borrowed s (sh.borrowed s + 1),
                         mpc := .w s .aqB }, [])
  | .aqB, .go =>
    some ({ sh with res := upd sh.res s (sh.res s + 1), borrowed := upd sh.borrowed s (sh.borrowed s - 1),
                    mpc := .w s .aqC }, [])
  | .aqC, .go => some ({ sh with mpc := .w s (if sh.guard = 0 then .aqE else .aqD) }, [])
  | .aqD, .go => some ({ sh with out := upd sh.out s (sh.out s - 1), mpc := .w s .aqR }, [])
  | .aqR, .rel i =>
    match release sh s i with
    | some sh' => some ({ sh' with mpc := .w s .l0 }, [])
    | none => none
  | .aqE, .take k =>
    match takeTask sh k with
    | some sh' => some ({ sh' with mpc := .w s .aq }, [.pkg k .chk])
    | none => none
  | .aqE, .takeFail => some ({ sh with mpc := .w s .aq }, [])
  | _, _ => none

/-- `LimitGatedScheduler::wait` of an unlimited stage `s` (nothing is ever put into its local queue) -/
def stepWaitU (c : Cfg) (sh : Sh) (s : Nat) : WPc → Choice → Option (Sh × List Frame)
  | .l0, .go => some ({ sh with mpc := if sh.out s = 0 then nextWait c s else .w s .l1 }, [])
  | .l1, .go => some ({ sh with mpc := if sh.guard = 0 then .w s .ex else nextWait c s }, [])
  | .ex, .take k =>
    match takeTask sh k with
    | some sh' => some ({ sh' with mpc := .w s .l0 }, [.pkg k .chk])
    | none => none
  | .ex, .takeFail => some ({ sh with mpc := .w s .l0 }, [])
  | _, _ => none

/-- `ConcurrentTaskSet::wait` (`d`: the call in `~ConcurrentTaskSet`; `r`: what `pipeline()` throws) -/
def stepCtsW (c : Cfg) (sh : Sh) (d : Bool) (r : Option Exc) : CPc → Choice → Option (Sh × List Frame)
  | .c0, .go => some ({ sh with mpc := .cts d (if sh.otc = 0 then .t0 else .c1) r }, [])
  | .c1, .take k =>
    match takeTask sh k with
    | some sh' => some ({ sh' with mpc := .cts d .c1 r }, [.pkg k .chk])
    | none => none
  | .c1, .takeFail => some ({ sh with mpc := .cts d .c2 r }, [])
  | .c2, .go => some ({ sh with mpc := .cts d .c0 r }, [])
  | .t0, .go => some ({ sh with mpc := .cts d (if sh.guard = 2 then .t1 else .t2) r }, [])
  | .t1, .go =>
    if d then some ({ sh with mpc := .term }, [])
    else some ({ sh with guard := 0, mpc := startDtor c sh.exw }, [])
  | .t2, .go =>
    if d then some ({ sh with mpc := .done r }, [])
    else some ({ sh with mpc := startDtor c none }, [])
  | _, _ => none

/-- one step of the calling thread's own code (its stack of inline frames is empty) -/
def stepMain (c : Cfg) (sh : Sh) : MPc → Choice → Option (Sh × List Frame)
  | .exec k, .go =>
    if k < c.genInst then some ({ sh with mpc := .exec (k + 1) }, [.cs .gen false])
    else some ({ sh with mpc := .compl }, [])
  | .compl, .go => if sh.compl = 0 then some ({ sh with mpc := .w 1 .l0 }, []) else none
  | .w s pc, ch =>
    match c.lim s with
    | some _ => stepWaitL c sh s pc ch
    | none => stepWaitU c sh s pc ch
  | .cts d pc r, ch => stepCtsW c sh d r pc ch
  | .dt s r, .deq =>
    -- ~Impl (repaired): release what is left in the local queue; the closure's outstanding_ increment is never undone
    if 0 < sh.qn s then
      some ({ sh with qn := upd sh.qn s (sh.qn s - 1), stuck := upd sh.stuck s (sh.stuck s + 1), mpc := .dtR s r }, [])
    else none
  | .dt s r, .deqFail =>
    if sh.qn s = 0 then some ({ sh with mpc := if s ≤ 1 then .cts true .c0 r else .dt (s - 1) r }, []) else none
  | .dtR s r, .rel i =>
    match release sh s i with
    | some sh' => some ({ sh' with mpc := .dt s r }, [])
    | none => none
  | _, _ => none

def setThr (st : St) (t : Nat) (stk : List Frame) (sh : Sh) : St :=
  { sh := sh, thr := fun u => if u = t then stk else st.thr u }

/-- one step of thread `t` (0 = the caller, 1..pool = pool threads) -/
def step (c : Cfg) (st : St) (t : Nat) (ch : Choice) : Option St :=
  if t = 0 then
    match st.thr 0 with
    | [] =>
      match stepMain c st.sh st.sh.mpc ch with
      | some (sh', stk) => some (setThr st 0 stk sh')
      | none => none
    | [.exc e] =>
      -- the exception leaves execute(): pipeline() unwinds
      if ch = .go then
        match st.sh.mpc with
        | .exec k =>
          -- the generator instances that were not scheduled yet never will be
          some (setThr st 0 [] { st.sh with mpc := startDtor c (some e), handling := st.sh.handling - 1,
                                            stuckC := st.sh.stuckC + (c.genInst - k) })
        | _ => none
      else none
    | stk =>
      match stepTop c st.sh stk ch with
      | some (sh', stk') => some (setThr st 0 stk' sh')
      | none => none
  else if t ≤ c.pool then
    match st.thr t with
    | [] =>
      match ch with
      | .take k =>
        match takeTask st.sh k with
        | some sh' => some (setThr st t [.pkg k .chk] sh')
        | none => none
      | _ => none
    | stk =>
      match stepTop c st.sh stk ch with
      | some (sh', stk') => some (setThr st t stk' sh')
      | none => none
  else none

/-- states reachable from the initial state by any finite interleaving of thread steps -/
inductive Reach (c : Cfg) : St → Prop where
  | init : Reach c (St.init c)
  | step {st st' : St} (t : Nat) (ch : Choice) : Reach c st → step c st t ch = some st' → Reach c st'

def run (c : Cfg) (st : St) : List (Nat × Choice) → Option St
  | [] => some st
  | (t, ch) :: l => match step c st t ch with
    | some st' => run c st' l
    | none => none

theorem reach_of_run {c : Cfg} {st st' : St} (l : List (Nat × Choice)) (h : Reach c st)
    (hr : run c st l = some st') : Reach c st' := by
  induction l generalizing st with
  | nil => simp [run] at hr; subst hr; exact h
  | cons a l ih =>
    obtain ⟨t, ch⟩ := a
    simp only [run] at hr
    split at hr
    · rename_i st1 h1
      exact ih (.step t ch h h1) hr
    · contradiction

end Dispenso.Pipe
