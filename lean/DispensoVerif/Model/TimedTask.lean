/-
Model of one `dispenso::detail::TimedTaskImpl` together with everybody who touches it
(dispenso/timed_task.h, dispenso/detail/timed_task_impl.h, dispenso/timed_task.cpp), at the
granularity of one model action per atomic operation of the C++ code (plus the accesses to the
plain member `func` and the call/return of the user function).

Participants
* the *kicker*: the thread that executes `TimedTaskScheduler::kickOffTask` for this impl.  It is the
  creating thread inside `addTimedTask` when the first run time has already been reached, and the
  scheduler thread after it popped the impl from its priority queue.  The impl is in at most one of
  these places (creator's call, queue, scheduler's call), so there is one kicker state.
* any number of *wraps*: the `wrap` closures that `func` hands to the backing schedulable
  (`sched.schedule(wrap, ForceQueuingTag())`).  Every wrap is its own logical thread (exact for
  `NewThreadInvoker`, an over-approximation of a thread pool; for an inline schedulable
  (`ImmediateInvoker`) the kicker waits in `K.inl` until the wrap is done).
* any number of client threads calling `cancel()`, `detach()`, `calls()`, and one run of `~TimedTask`
  (`D`; no contract between the two is assumed).
* time: a monotone counter `now` (unit: 2^-30 s in the harness); the clock values the kicker used in
  its comparison (`getTime()` results) are action parameters constrained to lie in the past.

`Cfg.fixed = false` is the code as found (`func` does cancelled-check then `inProgress++`, the
false-return path and `~TimedTask` clear `func`); `Cfg.fixed = true` is the repaired kick-off
(`TimedTaskImpl::kickOff`: announce in `inProgress`, re-check `cancelled`, only then touch `func`;
the false-return path no longer clears `func`).

Ghost fields (`kicks`, `started`, `cancelRet`, `dtorRet`, `falseRet`, `falsePub`, `uaf`) record
history; they never influence a step.

Not modelled: the other entries of the scheduler's queue (the scheduler serves them while this
impl's kicker state is `idle`; pop order among impls is irrelevant to the per-impl properties),
`shared_ptr` reference counting (the impl outlives every participant), memory orders (sequentially
consistent reading), `inProgress` overflow at 2^32 pending runs.
Core Lean only.
-/
namespace Dispenso.TimedTask

abbrev TId := Nat

structure Cfg where
  n0 : Nat        -- timesToRun at construction
  first : Nat     -- nextAbsTime at construction
  period : Nat
  steady : Bool
  inl : Bool      -- the backing schedulable runs the wrap inline (ImmediateInvoker)
  buf : Nat       -- kSmallTimeBuffer: kick-off happens when `next - cur < buf`
  fixed : Bool
  deriving Repr, DecidableEq

/-- kicker control state; `more` = the fetch_sub on timesToRun returned more than 1 -/
inductive K where
  | idle
  | fetch (cur : Nat)                       -- kickOffTask entered: timesToRun.fetch_sub(1) pending
  | announce (more : Bool) (cur : Nat)      -- fixed: inProgress.fetch_add(1) pending
  | recheck (more : Bool) (cur : Nat)       -- fixed: flags.load pending
  | retract                                 -- fixed: cancelled: inProgress.fetch_sub(1) pending
  | call (more : Bool) (cur : Nat)          -- about to call `func` (reads the std::function)
  | check (more : Bool) (cur : Nat)         -- old: inside func's closure: flags.load pending
  | incr (more : Bool) (cur : Nat)          -- old: inside func's closure: inProgress.fetch_add(1) pending
  | submit (more : Bool) (cur : Nat)        -- inside func's closure: sched.schedule(wrap) pending
  | inl (more : Bool) (cur : Nat) (i : Nat) -- inline schedulable: wrap i runs on this thread
  | requeue (more : Bool) (cur : Nat)       -- func returned: push back (more) or drop
  deriving Repr, DecidableEq

/-- state of one wrap closure -/
inductive W where
  | pending              -- queued on the schedulable; next: flags.load (the start check)
  | running              -- passed the check: the user function is executing
  | storeTtr             -- f returned false: timesToRun.store(0) pending
  | setFlag              -- flags.fetch_or(cancelled) pending
  | clear                -- old: `func = {}` pending
  | count                -- count.fetch_add(1) pending
  | decr (ran : Bool)    -- inProgress.fetch_sub(1) pending
  | done
  deriving Repr, DecidableEq

/-- the wrap has passed its start check and has not yet given back its `inProgress` unit -/
def W.busy : W → Bool
  | .running | .storeTtr | .setFlag | .clear | .count | .decr true => true
  | _ => false

/-- client call state (`cancel()`, `detach()`, `calls()` on any thread) -/
inductive C where
  | idle
  | cancel1                 -- timesToRun.store(0) pending
  | cancel2                 -- flags.fetch_or(cancelled) pending
  | detach1                 -- flags.fetch_or(detached) pending
  | calls1                  -- count.load pending
  | returned (v : Nat)      -- the call returned (v: result of calls(), else 0)
  deriving Repr, DecidableEq

/-- control state of `~TimedTask` (it runs at most once, on one thread) -/
inductive D where
  | notStarted
  | load                    -- flags.load pending (detached?)
  | cancel1                 -- cancel(): timesToRun.store(0) pending
  | cancel2                 -- cancel(): flags.fetch_or(cancelled) pending
  | spin                    -- inProgress.load pending (repeated until 0)
  | clear                   -- `func = {}` pending
  | returned (waited : Bool) -- returned; waited = false: the task was detached
  deriving Repr, DecidableEq

structure St where
  ttr : Nat
  detached : Bool
  cancelled : Bool
  inProgress : Nat
  count : Nat
  funcAlive : Bool
  now : Nat
  created : Bool       -- addTimedTask has run
  inQueue : Bool
  next : Nat           -- nextAbsTime
  k : K
  wraps : List W
  cl : TId → C
  d : D
  -- ghosts
  kicks : Nat          -- kick-offs whose fetch_sub returned ≥ 1
  started : Nat        -- invocations of the user function begun
  cancelRet : Bool     -- some cancel() has returned
  dtorRet : Bool       -- ~TimedTask has returned on the non-detached path
  falseRet : Bool      -- some invocation has returned false
  falsePub : Bool      -- … and has published it (flags.fetch_or done)
  uaf : Bool           -- `func` used after / destroyed during use

def init (c : Cfg) : St :=
  { ttr := c.n0, detached := false, cancelled := false, inProgress := 0, count := 0,
    funcAlive := true, now := 0, created := false, inQueue := false, next := c.first, k := .idle,
    wraps := [], cl := fun _ => .idle, d := .notStarted, kicks := 0, started := 0,
    cancelRet := false, dtorRet := false, falseRet := false, falsePub := false, uaf := false }

inductive Act where
  | tick (d : Nat)
  | add (cur : Nat)             -- addTimedTask on the creating thread, clock value `cur`
  | pop (cur : Nat)             -- the scheduler thread pops the impl, clock value `cur`
  | kstep                       -- next operation of the kicker
  | wstep (i : Nat)             -- next operation of wrap i
  | wret (i : Nat) (r : Bool)   -- the user function returns r in wrap i
  | call (t : TId) (c : C)      -- a client starts an API call
  | cstep (t : TId)             -- next operation of client t
  | dstep                       -- start / next operation of ~TimedTask
  deriving Repr

def maxSize : Nat := 2 ^ 64 - 1

/-- value of the `flags` word -/
def flagsWord (s : St) : Nat := (if s.detached then 1 else 0) + (if s.cancelled then 2 else 0)

def setCl (s : St) (t : TId) (c : C) : St :=
  { s with cl := fun u => if u = t then c else s.cl u }

def setWrap (s : St) (i : Nat) (w : W) : St := { s with wraps := s.wraps.set i w }

/-- a use of `func` / its closure by the kicker: use after destruction is recorded -/
def useFunc (s : St) : St := { s with uaf := s.uaf || !s.funcAlive }

/-- destruction of `func` (and of the user function object inside it): destroying it while an
    invocation is executing is recorded -/
def clearFunc (s : St) : St :=
  { s with funcAlive := false, uaf := s.uaf || s.wraps.any (· == W.running) }

def entryOk : C → Bool
  | .cancel1 | .detach1 | .calls1 => true
  | _ => false

def canCall : C → Bool
  | .idle | .returned _ => true
  | _ => false

def kstepF (c : Cfg) (s : St) : Option St :=
  match s.k with
  | .idle => none
  | .fetch cur =>
    let r := s.ttr
    let s1 := { s with ttr := if r = 0 then maxSize else r - 1 }
    if r = 0 then some { s1 with k := .idle }
    else
      let more := decide (1 < r)
      some { s1 with kicks := s.kicks + 1, k := if c.fixed then .announce more cur else .call more cur }
  | .announce more cur => some { s with inProgress := s.inProgress + 1, k := .recheck more cur }
  | .recheck more cur => some { s with k := if s.cancelled then .retract else .call more cur }
  | .retract => some { s with inProgress := s.inProgress - 1, k := .idle }
  | .call more cur =>
    if s.funcAlive then some { s with k := if c.fixed then .submit more cur else .check more cur }
    else some { s with uaf := true }   -- std::bad_function_call / call through a destroyed function: the thread does not get further
  | .check more cur =>
    let s1 := useFunc s
    some { s1 with k := if s.cancelled then .requeue more cur else .incr more cur }
  | .incr more cur =>
    let s1 := useFunc s
    some { s1 with inProgress := s.inProgress + 1, k := .submit more cur }
  | .submit more cur =>
    let s1 := useFunc s
    some { s1 with wraps := s.wraps ++ [W.pending],
                   k := if c.inl then .inl more cur s.wraps.length else .requeue more cur }
  | .inl _ _ _ => none
  | .requeue more cur =>
    if more then
      some { s with next := if c.steady then s.next + c.period else cur + c.period, inQueue := true, k := .idle }
    else some { s with k := .idle }

def wstepF (c : Cfg) (s : St) (i : Nat) : Option St :=
  match s.wraps[i]? with
  | none => none
  | some w =>
    match w with
    | .pending =>
      if s.cancelled then some (setWrap s i (.decr false))
      else some { setWrap s i .running with started := s.started + 1 }
    | .running => none
    | .storeTtr => some { setWrap s i .setFlag with ttr := 0 }
    | .setFlag =>
      some { setWrap s i (if c.fixed then .count else .clear) with cancelled := true, falsePub := true }
    | .clear => some (setWrap (clearFunc s) i .count)
    | .count => some { setWrap s i (.decr true) with count := s.count + 1 }
    | .decr _ =>
      let s1 := { setWrap s i .done with inProgress := s.inProgress - 1 }
      match s.k with
      | .inl more cur j => if j = i then some { s1 with k := .requeue more cur } else some s1
      | _ => some s1
    | .done => none

def cstepF (s : St) (t : TId) : Option St :=
  match s.cl t with
  | .idle => none
  | .returned _ => none
  | .cancel1 => some { setCl s t .cancel2 with ttr := 0 }
  | .cancel2 => some { setCl s t (.returned 0) with cancelled := true, cancelRet := true }
  | .detach1 => some { setCl s t (.returned 0) with detached := true }
  | .calls1 => some (setCl s t (.returned s.count))

def dstepF (s : St) : Option St :=
  match s.d with
  | .notStarted => if s.created then some { s with d := .load } else none
  | .load => some { s with d := if s.detached then .returned false else .cancel1 }
  | .cancel1 => some { s with ttr := 0, d := .cancel2 }
  | .cancel2 => some { s with cancelled := true, cancelRet := true, d := .spin }
  | .spin => some { s with d := if s.inProgress = 0 then .clear else .spin }
  | .clear => some { clearFunc s with d := .returned true, dtorRet := true }
  | .returned _ => none

def step (c : Cfg) (s : St) : Act → Option St
  | .tick d => some { s with now := s.now + d }
  | .add cur =>
    if s.created = false ∧ cur ≤ s.now then
      if c.first < cur + c.buf then some { s with created := true, k := .fetch cur }
      else some { s with created := true, inQueue := true }
    else none
  | .pop cur =>
    if s.created = true ∧ s.inQueue = true ∧ s.k = .idle ∧ cur ≤ s.now ∧ s.next < cur + c.buf then
      some { s with inQueue := false, k := .fetch cur }
    else none
  | .kstep => kstepF c s
  | .wstep i => wstepF c s i
  | .wret i r =>
    if s.wraps[i]? = some W.running then
      some { setWrap s i (if r then .count else .storeTtr) with falseRet := s.falseRet || !r }
    else none
  | .call t cc =>
    if s.created = true ∧ canCall (s.cl t) = true ∧ entryOk cc = true then some (setCl s t cc)
    else none
  | .cstep t => cstepF s t
  | .dstep => dstepF s

def run (c : Cfg) (s : St) : List Act → Option St
  | [] => some s
  | a :: as => match step c s a with
    | some s' => run c s' as
    | none => none

inductive Reachable (c : Cfg) : St → Prop where
  | init : Reachable c (init c)
  | step {s s' : St} (a : Act) : Reachable c s → step c s a = some s' → Reachable c s'

/-- an action that begins an invocation of the user function -/
def IsStart (s s' : St) : Prop := s'.started = s.started + 1

end Dispenso.TimedTask
