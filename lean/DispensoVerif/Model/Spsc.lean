import DispensoVerif.Core.Trace
/-
Model of `dispenso::SPSCRingBuffer<T, Capacity>` (dispenso/spsc_ring_buffer.h) — C35.
`K` is the internal buffer size (`kBufferSize = Capacity + 1`, or the next power of two);
`increment i = (i + 1) % K` (the power-of-two mask is the same function).
Fields: 0 `head_`, 1 `tail_`, 2 + i the element slot i (the harness's element type has one atomic
member: constructing stores the tag, moving out exchanges with the moved-from marker -1).
Thread roles (one producer, one consumer) are the usage contract; the model itself allows any
thread to start any call so that the trace acceptor does not need to know the roles.
Core Lean only.
-/
namespace Dispenso.Spsc
open Dispenso.Conc

def movedFrom : Int := -1

def inc (K : Nat) (i : Int) : Int := (i + 1) % (K : Int)

def slot (i : Int) : Fld := 2 + i.toNat

inductive L where
  | idle
  | done (ret : List Int)
  -- try_push / try_emplace (v)
  | pLoadT (v : Int)
  | pLoadH (v t : Int)
  | pWrite (v t : Int)
  | pPub (t : Int)
  -- try_pop variants
  | cLoadH
  | cLoadT (h : Int)
  | cTake (h : Int)
  | cPub (h v : Int)
  -- try_push_batch (vs)
  | bLoadT (vs : List Int)
  | bLoadH (vs : List Int) (t : Int)
  | bWrite (vs : List Int) (pos : Int) (count avail : Nat)
  | bPub (pos : Int) (count : Nat)
  -- try_pop_batch (max)
  | qLoadH (max : Nat)
  | qLoadT (max : Nat) (h : Int)
  | qTake (pos : Int) (left : Nat) (acc : List Int)
  | qPub (pos : Int) (acc : List Int)
  -- empty / full / size
  | eLoadH | eLoadT (h : Int)
  | fLoadT | fLoadH (t : Int)
  | sLoadH | sLoadT (h : Int)
  -- destructor: reads both indices (relaxed) and destroys what is left
  | dLoadH | dLoadT
  deriving Repr, DecidableEq

def op (_K : Nat) : L → Option AOp
  | .idle => none
  | .done _ => none
  | .pLoadT _ => some (.load 1)
  | .pLoadH _ _ => some (.load 0)
  | .pWrite v t => some (.store (slot t) v)
  | .pPub t => some (.store 1 (inc _K t))
  | .cLoadH => some (.load 0)
  | .cLoadT _ => some (.load 1)
  | .cTake h => some (.xchg (slot h) movedFrom)
  | .cPub h _ => some (.store 0 (inc _K h))
  | .bLoadT _ => some (.load 1)
  | .bLoadH _ _ => some (.load 0)
  | .bWrite vs pos _ _ => some (.store (slot pos) (vs.headD 0))
  | .bPub pos _ => some (.store 1 pos)
  | .qLoadH _ => some (.load 0)
  | .qLoadT _ _ => some (.load 1)
  | .qTake pos _ _ => some (.xchg (slot pos) movedFrom)
  | .qPub pos _ => some (.store 0 pos)
  | .eLoadH => some (.load 0)
  | .eLoadT _ => some (.load 1)
  | .fLoadT => some (.load 1)
  | .fLoadH _ => some (.load 0)
  | .sLoadH => some (.load 0)
  | .sLoadT _ => some (.load 1)
  | .dLoadH => some (.load 0)
  | .dLoadT => some (.load 1)

def availPush (K : Nat) (t h : Int) : Nat :=
  if t ≥ h then ((K : Int) - 1 - (t - h)).toNat else (h - t - 1).toNat

def availPop (K : Nat) (t h : Int) : Nat :=
  if t ≥ h then (t - h).toNat else ((K : Int) - h + t).toNat

def cont (K : Nat) : L → Int → L
  | .idle, _ => .idle
  | .done r, _ => .done r
  | .pLoadT v, r => .pLoadH v r
  | .pLoadH v t, r => if inc K t = r then .done [0] else .pWrite v t
  | .pWrite _ t, _ => .pPub t
  | .pPub _, _ => .done [1]
  | .cLoadH, r => .cLoadT r
  | .cLoadT h, r => if h = r then .done [0] else .cTake h
  | .cTake h, r => .cPub h r
  | .cPub _ v, _ => .done [1, v]
  | .bLoadT vs, r => .bLoadH vs r
  | .bLoadH vs t, r =>
    let avail := availPush K t r
    if avail = 0 ∨ vs = [] then .done [0] else .bWrite vs t 0 avail
  | .bWrite vs pos count avail, _ =>
    let vs' := vs.tail
    let pos' := inc K pos
    let count' := count + 1
    if vs' ≠ [] ∧ count' < avail then .bWrite vs' pos' count' avail else .bPub pos' count'
  | .bPub _ count, _ => .done [count]
  | .qLoadH m, r => .qLoadT m r
  | .qLoadT m h, r =>
    let avail := availPop K r h
    if avail = 0 ∨ m = 0 then .done [0] else .qTake h (min avail m) []
  | .qTake pos left acc, r =>
    if left ≤ 1 then .qPub (inc K pos) (acc ++ [r]) else .qTake (inc K pos) (left - 1) (acc ++ [r])
  | .qPub _ acc, _ => .done ((acc.length : Int) :: acc)
  | .eLoadH, r => .eLoadT r
  | .eLoadT h, r => .done [if h = r then 1 else 0]
  | .fLoadT, r => .fLoadH r
  | .fLoadH t, r => .done [if inc K t = r then 1 else 0]
  | .sLoadH, r => .sLoadT r
  | .sLoadT h, r => .done [if r ≥ h then r - h else (K : Int) - h + r]
  | .dLoadH, _ => .dLoadT
  | .dLoadT, _ => .done []

def idleOrDone : L → Bool
  | .idle => true
  | .done _ => true
  | _ => false

def isEntry : L → Bool
  | .pLoadT v => decide (0 ≤ v)
  | .bLoadT vs => vs.all fun v => decide (0 ≤ v)
  | .cLoadH | .qLoadH _ | .eLoadH | .fLoadT | .sLoadH | .dLoadH => true
  | _ => false

def proto (K : Nat) : Proto :=
  { L := L, op := op K, cont := cont K, entry := fun l l' => idleOrDone l && isEntry l' }

def parseSlot (s : String) : Option Fld :=
  if s = "slot" then some 2
  else match s.splitOn "+" with
    | ["slot", off] => match off.toNat? with
      | some o => some (2 + o / 4)
      | none => none
    | _ => none

def binding (K : Nat) : Trace.Binding (proto K) :=
  { fieldOf := fun s => if s = "head" then some 0 else if s = "tail" then some 1 else parseSlot s
    bits := fun f => if f < 2 then 64 else 32
    mkCall := fun name args _ =>
      match name, args with
      | "try_push", [v] => some (.pLoadT v)
      | "try_pop", [] => some .cLoadH
      | "try_push_batch", vs => some (.bLoadT vs)
      | "try_pop_batch", [m] => some (.qLoadH m.toNat)
      | "empty", [] => some .eLoadH
      | "full", [] => some .fLoadT
      | "size", [] => some .sLoadH
      | "dtor", [] => some .dLoadH
      | _, _ => none
    retOf := fun l => match l with
      | .done r => some r
      | _ => none
    -- declared orders of spsc_ring_buffer.h: the index owned by the other side is read with
    -- acquire, the own index is published with release
    reqOrder := fun l => match l with
      | .pLoadH _ _ => 2 | .pPub _ => 3 | .cLoadT _ => 2 | .cPub _ _ => 3
      | .bLoadH _ _ => 2 | .bPub _ _ => 3 | .qLoadT _ _ => 2 | .qPub _ _ => 3
      | .eLoadH => 2 | .eLoadT _ => 2 | .fLoadT => 2 | .fLoadH _ => 2 | .sLoadH => 2 | .sLoadT _ => 2
      | _ => 0 }

def init (K : Nat) : State (proto K) := initState (proto K) L.idle (fun f => if f < 2 then 0 else movedFrom)

/-- values written into slots (pushes) and values moved out of slots (pops), in history order -/
def pushed (evs : List Ev) : List Int :=
  evs.filterMap fun e => match e.op with
    | .store f v => if f ≥ 2 then some v else none
    | _ => none

def popped (evs : List Ev) : List Int :=
  evs.filterMap fun e => match e.op with
    | .xchg f _ => if f ≥ 2 then some e.res else none
    | _ => none

end Dispenso.Spsc
