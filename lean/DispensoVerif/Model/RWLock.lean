import DispensoVerif.Core.Trace
/-
Model of `dispenso::detail::RWLockImpl` (dispenso/detail/rw_lock_impl.h) — C22 (and the per-slot
lock of C23). Field 0 is the lock word, which is also the futex word of the embedded
CompletionEventImpl. The word is kept as an unsigned 32-bit value: `W = 2^31` is the writer bit
(`kWriteBit` = INT_MIN as a signed int), the low 31 bits count readers; `fetch_or W` sets the bit,
`fetch_and R` (R = 2^31 - 1) clears it. The trace comparison is modulo 2^32, so the signed values
the code prints match. One model action per atomic / futex operation; spin counters and yields are
not modelled (they only bound how often the same load is repeated).
Every local state records what the thread holds (`Hold`), so that the usage contract
(unlock only what you hold, single upgrader) and mutual exclusion can be stated.
Core Lean only.
-/
namespace Dispenso.RWLock
open Dispenso.Conc

def W : Int := 2147483648
def R : Int := 2147483647
def intMax : Nat := 2147483647
def hasBit (v : Int) : Bool := decide (W ≤ v)

inductive Hold where
  | none | read | write
  deriving Repr, DecidableEq

inductive L where
  | idle
  | done (ret : Int) (h : Hold)
  -- lock(): setWriteBit loop, then wait(kWriteBit)
  | lkOr
  | wLoad            -- CompletionEventImpl::wait(W): load; if != W futex-wait
  | wWait (cur : Int)
  -- try_lock()
  | tlOr
  | tlSpin (k : Nat)
  | tlRollback
  -- unlock()
  | ulAnd
  -- lock_shared()
  | lsAdd
  | lsRelease
  | lsNotify
  | lsSpin
  -- try_lock_shared()
  | tsAdd
  | tsRelease
  | tsNotify
  -- unlock_shared()
  | usSub
  | usNotify
  -- lock_upgrade(): setWriteBit, fetch_sub 1, wait
  | upOr
  | upSub
  -- lock_downgrade(): fetch_add 1, unlock
  | dgAdd
  | dgAnd
  deriving Repr, DecidableEq

def kTryLockDrainSpins : Nat := 16

def op : L → Option AOp
  | .idle => none
  | .done _ _ => none
  | .lkOr => some (.for_ 0 W)
  | .wLoad => some (.load 0)
  | .wWait cur => some (.fwait 0 cur false)
  | .tlOr => some (.for_ 0 W)
  | .tlSpin _ => some (.load 0)
  | .tlRollback => some (.fand 0 R)
  | .ulAnd => some (.fand 0 R)
  | .lsAdd => some (.fadd 0 1)
  | .lsRelease => some (.fsub 0 1)
  | .lsNotify => some (.fwake 0 intMax)
  | .lsSpin => some (.load 0)
  | .tsAdd => some (.fadd 0 1)
  | .tsRelease => some (.fsub 0 1)
  | .tsNotify => some (.fwake 0 intMax)
  | .usSub => some (.fsub 0 1)
  | .usNotify => some (.fwake 0 intMax)
  | .upOr => some (.for_ 0 W)
  | .upSub => some (.fsub 0 1)
  | .dgAdd => some (.fadd 0 1)
  | .dgAnd => some (.fand 0 R)

def cont : L → Int → L
  | .idle, _ => .idle
  | .done r h, _ => .done r h
  | .lkOr, r => if hasBit r then .lkOr else .wLoad
  | .wLoad, r => if r = W then .done 1 .write else .wWait r
  | .wWait _, _ => .wLoad
  | .tlOr, r => if hasBit r then .done 0 .none else if r = 0 then .done 1 .write else .tlSpin 0
  | .tlSpin k, r =>
    if r = W then .done 1 .write else if k + 1 < kTryLockDrainSpins then .tlSpin (k + 1) else .tlRollback
  | .tlRollback, _ => .done 0 .none
  | .ulAnd, _ => .done 0 .none
  | .lsAdd, r => if hasBit r then .lsRelease else .done 1 .read
  | .lsRelease, r => if r = W + 1 then .lsNotify else .lsSpin
  | .lsNotify, _ => .lsSpin
  | .lsSpin, r => if hasBit r then .lsSpin else .lsAdd
  | .tsAdd, r => if hasBit r then .tsRelease else .done 1 .read
  | .tsRelease, r => if r = W + 1 then .tsNotify else .done 0 .none
  | .tsNotify, _ => .done 0 .none
  | .usSub, r => if r = W + 1 then .usNotify else .done 0 .none
  | .usNotify, _ => .done 0 .none
  | .upOr, r => if hasBit r then .upOr else .upSub
  | .upSub, _ => .wLoad
  | .dgAdd, _ => .dgAnd
  | .dgAnd, _ => .done 0 .read

/-- what a thread holds *between calls* (inside a call it is in transit) -/
def holdOf : L → Hold
  | .done _ h => h
  | _ => .none

/-- usage contract: acquire only when holding nothing, release/convert only what is held -/
def entry (l l' : L) : Bool :=
  match l, l' with
  | .idle, .lkOr | .idle, .tlOr | .idle, .lsAdd | .idle, .tsAdd => true
  | .done _ .none, .lkOr | .done _ .none, .tlOr | .done _ .none, .lsAdd | .done _ .none, .tsAdd => true
  | .done _ .write, .ulAnd | .done _ .write, .dgAdd => true
  | .done _ .read, .usSub | .done _ .read, .upOr => true
  | _, _ => false

def proto : Proto := { L := L, op := op, cont := cont, entry := entry }

def binding : Trace.Binding proto :=
  { fieldOf := fun s => if s = "word" then some 0 else none
    bits := fun _ => 32
    mkCall := fun name args _ =>
      match name, args with
      | "lock", [] => some .lkOr
      | "try_lock", [] => some .tlOr
      | "unlock", [] => some .ulAnd
      | "lock_shared", [] => some .lsAdd
      | "try_lock_shared", [] => some .tsAdd
      | "unlock_shared", [] => some .usSub
      | "lock_upgrade", [] => some .upOr
      | "lock_downgrade", [] => some .dgAdd
      | _, _ => none
    retOf := fun l => match l with
      | .done r _ => some [r]
      | _ => none
    -- declared orders of rw_lock_impl.h: every RMW on the lock word is acq_rel, waits load with acquire
    reqOrder := fun l => match l with
      | .lkOr | .tlOr | .tlRollback | .ulAnd | .lsAdd | .lsRelease | .tsAdd | .tsRelease | .usSub | .upOr | .upSub
      | .dgAdd | .dgAnd => 4
      | .wLoad | .tlSpin _ | .lsSpin => 2
      | _ => 0 }

def init : State proto := initState proto L.idle (fun _ => 0)

/-- a thread is inside `lock_upgrade` (the documentation allows one upgrader at a time).
    `wLoad`/`wWait` are shared with `lock()`, so the upgrade phase is tracked up to `upSub`. -/
def upgrading : L → Bool
  | .upOr | .upSub => true
  | _ => false

end Dispenso.RWLock
