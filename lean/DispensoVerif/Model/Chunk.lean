/-
Model of the static chunking arithmetic (C17):
  dispenso/platform.h   detail::staticChunkSize, detail::staticChunkSizeGranular
  dispenso/detail/par_for_static.h   StaticChunkMapper::operator()
  dispenso/for_each.h   per-chunk offsets of for_each_n_schedule
`ssize_t` values are modelled as `Int`; C++ `/` is `Int.tdiv`. Overflow is excluded by the
explicit predicate `NoOverflow` (the property's own domain: "within ssize_t without overflow").
Core Lean only (linked into dvdriver).
-/
namespace Dispenso.Chunk

structure StaticChunking where
  transitionTaskIndex : Int
  ceilChunkSize : Int
deriving Repr, DecidableEq

/-- platform.h: staticChunkSize(items, chunks); asserts chunks > 0 -/
def staticChunkSize (items chunks : Int) : StaticChunking :=
  let ceilChunkSize := (items + chunks - 1).tdiv chunks
  let numLeft := ceilChunkSize * chunks - items
  { transitionTaskIndex := chunks - numLeft, ceilChunkSize := ceilChunkSize }

/-- platform.h: staticChunkSizeGranular(items, chunks, granularity) -/
def staticChunkSizeGranular (items chunks granularity : Int) : StaticChunking :=
  if granularity ≤ 1 then staticChunkSize items chunks
  else
    let gUnits := items.tdiv granularity
    let ceilG := (gUnits + chunks - 1).tdiv chunks
    let numLeft := ceilG * chunks - gUnits
    { transitionTaskIndex := chunks - numLeft, ceilChunkSize := ceilG * granularity }

def ssizeMax : Int := 9223372036854775807

/-- every intermediate of staticChunkSize fits `ssize_t` -/
def NoOverflow (items chunks : Int) : Prop := items + chunks ≤ ssizeMax

/-- The mapper used by parallel_for_staticImpl and for_each_n_schedule, over unbounded integers:
  chunk `idx` of `n` chunks with transition index `t`, big size `c`, small size `sm`, in a range
  starting at `rangeStart` and ending at `rangeEnd`. -/
structure Mapper where
  numThreads : Int
  chunkSize : Int
  smallChunk : Int
  transIdx : Int
  rangeStart : Int
  rangeEnd : Int
deriving Repr

def Mapper.start (m : Mapper) (idx : Int) : Int :=
  if idx < m.transIdx then m.rangeStart + idx * m.chunkSize
  else m.rangeStart + m.transIdx * m.chunkSize + (idx - m.transIdx) * m.smallChunk

def Mapper.stop (m : Mapper) (idx : Int) : Int :=
  if idx + 1 = m.numThreads then m.rangeEnd
  else if idx < m.transIdx then m.start idx + m.chunkSize
  else m.start idx + m.smallChunk

/-- the mapper parallel_for_staticImpl builds from a chunking (granularity unit `g ≥ 1`) -/
def mkMapper (rangeStart rangeEnd numThreads g : Int) : Mapper :=
  let chunking := staticChunkSizeGranular (rangeEnd - rangeStart) numThreads g
  let chunkSize := chunking.ceilChunkSize
  let perfectlyChunked := chunking.transitionTaskIndex = numThreads
  let chunkStep := if g > 1 then g else 1
  let smallChunk := chunkSize - (if perfectlyChunked then 0 else chunkStep)
  { numThreads := numThreads, chunkSize := chunkSize, smallChunk := smallChunk,
    transIdx := if perfectlyChunked then numThreads else chunking.transitionTaskIndex,
    rangeStart := rangeStart, rangeEnd := rangeEnd }

/-- for_each_n: offsets and sizes (random-access flavour) -/
def forEachOffset (n numThreads idx : Int) : Int × Int :=
  let chunking := staticChunkSize n numThreads
  let chunkSize := chunking.ceilChunkSize
  let perfectlyChunked := chunking.transitionTaskIndex = numThreads
  let transitionIdx := chunking.transitionTaskIndex
  let smallChunkSize := chunkSize - (if perfectlyChunked then 0 else 1)
  if idx < transitionIdx then (idx * chunkSize, chunkSize)
  else (transitionIdx * chunkSize + (idx - transitionIdx) * smallChunkSize, smallChunkSize)

/-- list of the chunk boundaries `(start, end)` the mapper yields for idx = 0..n-1 -/
def Mapper.chunks (m : Mapper) : List (Int × Int) :=
  (List.range m.numThreads.toNat).map fun (i : Nat) => (m.start (i : Int), m.stop (i : Int))

end Dispenso.Chunk
