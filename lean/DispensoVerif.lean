-- This module serves as the root of the `DispensoVerif` library.
-- Import modules here that should be built as part of the library.
import DispensoVerif.Basic
